//! annotator: parses a dumped macro expansion, inserts contract attributes in front of the
//! functions named by a contract table, and writes an inventory of everything the expansion defines.
//! It only ADDS attributes; every token of the dump is re-emitted.
//!
//! usage: annotator <job.json>
//! job = [ { "dump": path, "contracts": [ {"impl": "S", "trait": null|"Default", "fn": "with_a", "attrs": ["kani::requires(..)", ..] } ],
//!           "out": path, "inventory": path } ]
//! Placeholders in attrs: $RAW (name of the single field of the struct the impl is for; for a tuple
//! struct wrapping a bitfield `0.<raw field>`), $SELFRAW (`self.$RAW`), $ARG0, $ARG1.. (names of the non-self parameters).
use proc_macro2::{TokenStream, TokenTree};
use quote::ToTokens;
use serde_json::{json, Value};
use std::collections::HashMap;

fn norm(ts: &TokenStream) -> String {
    ts.to_string().chars().filter(|c| !c.is_whitespace()).collect()
}

/// `PartialB<0x1f>` -> `PartialB<31>`: integer literals inside the generic arguments are printed in decimal
fn canon_ty(ty: &syn::Type) -> String {
    if let syn::Type::Path(tp) = ty {
        if let Some(seg) = tp.path.segments.last() {
            if let syn::PathArguments::AngleBracketed(ab) = &seg.arguments {
                let mut parts: Vec<String> = Vec::new();
                for a in &ab.args {
                    let txt = norm(&a.to_token_stream());
                    let v = match a {
                        syn::GenericArgument::Const(syn::Expr::Lit(l)) => match &l.lit {
                            syn::Lit::Int(i) => i.base10_parse::<u128>().ok(),
                            _ => None,
                        },
                        _ => None,
                    };
                    parts.push(v.map(|v| v.to_string()).unwrap_or(txt));
                }
                let mut head = tp.path.clone();
                head.segments.last_mut().unwrap().arguments = syn::PathArguments::None;
                return format!("{}<{}>", norm(&head.to_token_stream()), parts.join(","));
            }
        }
    }
    norm(&ty.to_token_stream())
}

fn subst_rawof(mut s: String, raw_of: &HashMap<String, String>) -> Result<String, String> {
    while let Some(p) = s.find("$RAWOF(") {
        let rest = &s[p + 7..];
        let q = rest.find(')').ok_or("unterminated $RAWOF(")?;
        let name = rest[..q].to_string();
        let r = raw_of.get(&name).ok_or(format!("no raw field known for {}", name))?;
        s = format!("{}{}{}", &s[..p], r, &rest[q + 1..]);
    }
    Ok(s)
}

fn count_unsafe(ts: TokenStream) -> usize {
    let mut n = 0;
    for t in ts {
        match t {
            TokenTree::Ident(i) if i == "unsafe" => n += 1,
            TokenTree::Group(g) => n += count_unsafe(g.stream()),
            _ => {}
        }
    }
    n
}

fn vis_str(v: &syn::Visibility) -> String {
    match v {
        syn::Visibility::Inherited => "".into(),
        other => norm(&other.to_token_stream()),
    }
}

fn attr_names(attrs: &[syn::Attribute]) -> Vec<String> {
    attrs
        .iter()
        .map(|a| {
            let p = norm(&a.path().to_token_stream());
            if p == "doc" { "doc".to_string() } else { norm(&a.meta.to_token_stream()) }
        })
        .collect()
}

/// `annotator --quotes <file.rs> <out.json>`: every `quote! { .. }` invocation with the function it sits in and its ordinal there
struct QuoteFinder {
    current: Vec<String>,
    count: HashMap<String, usize>,
    out: Vec<Value>,
}

impl<'ast> syn::visit::Visit<'ast> for QuoteFinder {
    fn visit_item_fn(&mut self, f: &'ast syn::ItemFn) {
        self.current.push(f.sig.ident.to_string());
        syn::visit::visit_item_fn(self, f);
        self.current.pop();
    }
    fn visit_impl_item_fn(&mut self, f: &'ast syn::ImplItemFn) {
        self.current.push(f.sig.ident.to_string());
        syn::visit::visit_impl_item_fn(self, f);
        self.current.pop();
    }
    fn visit_macro(&mut self, m: &'ast syn::Macro) {
        if m.path.is_ident("quote") {
            let f = self.current.first().cloned().unwrap_or_default();
            let n = self.count.entry(f.clone()).or_insert(0);
            self.out.push(json!({"fn": f, "ordinal": *n, "tokens": m.tokens.to_string()}));
            *n += 1;
        }
        syn::visit::visit_macro(self, m);
    }
}

fn quotes(path: &str, out: &str) -> Result<(), String> {
    let text = std::fs::read_to_string(path).map_err(|e| e.to_string())?;
    let file: syn::File = syn::parse_file(&text).map_err(|e| format!("parse: {e}"))?;
    let mut q = QuoteFinder { current: Vec::new(), count: HashMap::new(), out: Vec::new() };
    syn::visit::Visit::visit_file(&mut q, &file);
    std::fs::write(out, serde_json::to_string_pretty(&Value::Array(q.out)).unwrap()).map_err(|e| e.to_string())
}

fn main() {
    let args: Vec<String> = std::env::args().collect();
    if args.len() == 4 && args[1] == "--quotes" {
        if let Err(e) = quotes(&args[2], &args[3]) {
            eprintln!("annotator: {e}");
            std::process::exit(2);
        }
        return;
    }
    let job: Value = serde_json::from_str(&std::fs::read_to_string(&args[1]).expect("job file")).expect("job json");
    let mut failed = false;
    for j in job.as_array().expect("job array") {
        if let Err(e) = run(j) {
            eprintln!("annotator: {}: {}", j["dump"], e);
            failed = true;
        }
    }
    if failed {
        std::process::exit(2);
    }
}

fn run(j: &Value) -> Result<(), String> {
    let dump_path = j["dump"].as_str().ok_or("dump")?;
    let text = std::fs::read_to_string(dump_path).map_err(|e| e.to_string())?;
    let ts: TokenStream = text.parse().map_err(|e| format!("lex: {e}"))?;
    let unsafe_count = count_unsafe(ts.clone());
    let mut file: syn::File = syn::parse2(ts).map_err(|e| format!("parse: {e}"))?;

    // struct name -> raw accessor path (e.g. "raw_value" or "0.raw_value")
    let mut raw_of: HashMap<String, String> = HashMap::new();
    let mut inv: Vec<Value> = Vec::new();
    // first pass: structs and enums
    for item in &file.items {
        match item {
            syn::Item::Struct(s) => {
                let name = s.ident.to_string();
                let fields: Vec<Value> = s
                    .fields
                    .iter()
                    .enumerate()
                    .map(|(i, f)| {
                        json!({"name": f.ident.as_ref().map(|x| x.to_string()).unwrap_or(i.to_string()),
                               "ty": norm(&f.ty.to_token_stream()), "vis": vis_str(&f.vis)})
                    })
                    .collect();
                if s.fields.len() == 1 {
                    let f = s.fields.iter().next().unwrap();
                    match &f.ident {
                        Some(id) => { raw_of.insert(name.clone(), id.to_string()); }
                        None => {
                            // tuple struct wrapping another struct of this dump
                            let inner = norm(&f.ty.to_token_stream());
                            if let Some(r) = raw_of.get(&inner) {
                                let r = format!("0.{}", r);
                                raw_of.insert(name.clone(), r);
                            }
                        }
                    }
                }
                inv.push(json!({"kind": "struct", "name": name, "vis": vis_str(&s.vis), "fields": fields,
                                "generics": norm(&s.generics.to_token_stream()), "attrs": attr_names(&s.attrs)}));
            }
            syn::Item::Enum(e) => {
                let variants: Vec<Value> = e
                    .variants
                    .iter()
                    .map(|v| json!({"name": v.ident.to_string(),
                                    "discr": v.discriminant.as_ref().map(|d| norm(&d.1.to_token_stream())),
                                    "attrs": attr_names(&v.attrs)}))
                    .collect();
                inv.push(json!({"kind": "enum", "name": e.ident.to_string(), "vis": vis_str(&e.vis), "variants": variants, "attrs": attr_names(&e.attrs)}));
            }
            _ => {}
        }
    }

    let contracts = j["contracts"].as_array().cloned().unwrap_or_default();
    let mut used = vec![false; contracts.len()];

    for item in &mut file.items {
        match item {
            syn::Item::Impl(im) => {
                let self_ty = canon_ty(&im.self_ty);
                let base_name = self_ty.split('<').next().unwrap_or("").to_string();
                let trait_name = im.trait_.as_ref().map(|t| norm(&t.1.to_token_stream()));
                let raw = raw_of.get(&base_name).cloned();
                let mut members: Vec<Value> = Vec::new();
                for it in &mut im.items {
                    match it {
                        syn::ImplItem::Fn(f) => {
                            let fname = f.sig.ident.to_string();
                            let mut params: Vec<Value> = Vec::new();
                            let mut recv = Value::Null;
                            let mut argnames: Vec<String> = Vec::new();
                            for inp in &f.sig.inputs {
                                match inp {
                                    syn::FnArg::Receiver(r) => recv = json!(norm(&r.to_token_stream())),
                                    syn::FnArg::Typed(pt) => {
                                        let n = norm(&pt.pat.to_token_stream());
                                        argnames.push(n.clone());
                                        params.push(json!({"name": n, "ty": norm(&pt.ty.to_token_stream())}));
                                    }
                                }
                            }
                            let ret = match &f.sig.output {
                                syn::ReturnType::Default => "()".to_string(),
                                syn::ReturnType::Type(_, t) => norm(&t.to_token_stream()),
                            };
                            let mut contracted = false;
                            for (ci, c) in contracts.iter().enumerate() {
                                if c["impl"].as_str() == Some(self_ty.as_str())
                                    && c["fn"].as_str() == Some(fname.as_str())
                                    && c["trait"].as_str().map(|s| s.to_string()) == trait_name
                                {
                                    used[ci] = true;
                                    contracted = true;
                                    for a in c["attrs"].as_array().ok_or("attrs")? {
                                        let mut s = subst_rawof(a.as_str().ok_or("attr str")?.to_string(), &raw_of)?;
                                        if s.contains("$RAW") || s.contains("$SELFRAW") {
                                            let r = raw.clone().ok_or(format!("no raw field known for {}", base_name))?;
                                            s = s.replace("$SELFRAW", &format!("self.{}", r)).replace("$RAW", &r);
                                        }
                                        for (k, n) in argnames.iter().enumerate().rev() {
                                            s = s.replace(&format!("$ARG{}", k), n);
                                        }
                                        if s.contains("$ARG") {
                                            return Err(format!("contract for {}::{} refers to a parameter that does not exist: {}", self_ty, fname, s));
                                        }
                                        let meta: TokenStream = s.parse().map_err(|e| format!("attr lex {s}: {e}"))?;
                                        let attr: syn::Attribute = syn::parse_quote!(#[cfg_attr(kani, #meta)]);
                                        f.attrs.push(attr);
                                    }
                                }
                            }
                            members.push(json!({"kind": "fn", "name": fname, "vis": vis_str(&f.vis), "const": f.sig.constness.is_some(),
                                "unsafe": f.sig.unsafety.is_some(), "recv": recv, "params": params, "ret": ret, "contracted": contracted,
                                "attrs": attr_names(&f.attrs)}));
                        }
                        syn::ImplItem::Const(c) => {
                            members.push(json!({"kind": "const", "name": c.ident.to_string(), "vis": vis_str(&c.vis), "ty": norm(&c.ty.to_token_stream())}));
                        }
                        other => {
                            members.push(json!({"kind": "other", "text": norm(&other.to_token_stream())}));
                        }
                    }
                }
                inv.push(json!({"kind": "impl", "self_ty": self_ty, "trait": trait_name, "raw": raw, "items": members}));
            }
            syn::Item::Fn(f) => {
                let fname = f.sig.ident.to_string();
                let mut argnames: Vec<String> = Vec::new();
                let mut params: Vec<Value> = Vec::new();
                for inp in &f.sig.inputs {
                    if let syn::FnArg::Typed(pt) = inp {
                        let n = norm(&pt.pat.to_token_stream());
                        argnames.push(n.clone());
                        params.push(json!({"name": n, "ty": norm(&pt.ty.to_token_stream())}));
                    }
                }
                let mut contracted = false;
                for (ci, c) in contracts.iter().enumerate() {
                    if c["impl"].as_str() == Some("") && c["fn"].as_str() == Some(fname.as_str()) {
                        used[ci] = true;
                        contracted = true;
                        for a in c["attrs"].as_array().ok_or("attrs")? {
                            let mut s = a.as_str().ok_or("attr str")?.to_string();
                            for (k, n) in argnames.iter().enumerate().rev() {
                                s = s.replace(&format!("$ARG{}", k), n);
                            }
                            let meta: TokenStream = s.parse().map_err(|e| format!("attr lex {s}: {e}"))?;
                            let attr: syn::Attribute = syn::parse_quote!(#[cfg_attr(kani, #meta)]);
                            f.attrs.push(attr);
                        }
                    }
                }
                let ret = match &f.sig.output {
                    syn::ReturnType::Default => "()".to_string(),
                    syn::ReturnType::Type(_, t) => norm(&t.to_token_stream()),
                };
                inv.push(json!({"kind": "fn", "name": fname, "vis": vis_str(&f.vis), "const": f.sig.constness.is_some(), "params": params,
                                "ret": ret, "contracted": contracted}));
            }
            syn::Item::Struct(_) | syn::Item::Enum(_) => {}
            other => {
                inv.push(json!({"kind": "other", "text": norm(&other.to_token_stream())}));
            }
        }
    }

    let unmatched: Vec<Value> = contracts.iter().zip(used.iter()).filter(|(_, u)| !**u)
        .map(|(c, _)| json!({"impl": c["impl"], "fn": c["fn"], "trait": c["trait"]})).collect();
    let out = file.to_token_stream().to_string();
    std::fs::write(j["out"].as_str().ok_or("out")?, out).map_err(|e| e.to_string())?;
    let inventory = json!({"dump": dump_path, "unsafe_tokens": unsafe_count, "items": inv, "unmatched_contracts": unmatched, "raw_of": raw_of});
    std::fs::write(j["inventory"].as_str().ok_or("inventory")?, serde_json::to_string_pretty(&inventory).unwrap()).map_err(|e| e.to_string())?;
    Ok(())
}
