#!/bin/sh
# builds the framework offline from files on disk only and warms the shared cargo target directories
set -e
cd "$(dirname "$0")"
export CARGO_NET_OFFLINE=true
(cd annotator && cargo build --offline 2>&1 | tail -2)
mkdir -p .work evidence replays
# warm: the hooked macro + arbitrary-int for the corpus crates, and Kani's build of arbitrary-int
python3 - <<'PY'
import sys
sys.path.insert(0, ".")
from vlib import xrun, corpus
from vlib.model import *
import os
p = Program("warm", structs=[Struct("Swarm", 8, [Field("a", T_u(3), [(0, 3)])])], props=())
w = os.path.join(xrun.WORK, "warm")
os.makedirs(w, exist_ok=True)
d, e = xrun.dump_expansions(w, [p])
print("setup: dump hook works:", sorted(d))
PY
echo "setup done"
