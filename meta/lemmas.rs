// lemmas.rs -- lemmas over the contracts (Verus).  None of them looks at /repo: their hypotheses are exactly what the
// Kani contracts of unit X establish per operation (every with_/set_/builder step is a put_spec step; every getter is
// get_spec; constructors and steps keep the invariant), their conclusions are the whole-history properties C11-C13 and
// the compositional parts of C02/C04.

// ---------------------------------------------------------------------------------------------------------------
// link between spec.rs (proved against put_model/get_model in adequacy) and the abstract register

/// bit k is addressed by one of the first i ranges
pub open spec fn covered(rs: Seq<(usize, usize)>, shift: int, i: int, k: int) -> bool
    decreases i
{
    if i <= 0 { false } else {
        (rs[i - 1].0 + shift <= k < rs[i - 1].0 + shift + rs[i - 1].1) || covered(rs, shift, i - 1, k)
    }
}

/// C02/C03/C04 frame: a write changes no bit outside the listed positions (other fields, other elements, gap bits)
pub proof fn lemma_put_frame(raw: u128, rs: Seq<(usize, usize)>, shift: int, v: u128, i: int, k: int)
    requires 0 <= i, !covered(rs, shift, i, k)
    ensures put_model(raw, rs, shift, v, i, k) == bit(raw, k)
    decreases i
{
    if i > 0 { lemma_put_frame(raw, rs, shift, v, i - 1, k); }
}

/// the ranges of the list are pairwise disjoint (lists naming a bit twice are outside the guarantee of C04)
pub open spec fn disjoint(rs: Seq<(usize, usize)>) -> bool {
    forall|a: int, b: int| 0 <= a < b < rs.len() ==>
        (#[trigger] rs[a]).0 + rs[a].1 <= (#[trigger] rs[b]).0 || rs[b].0 + rs[b].1 <= rs[a].0
}

/// C04 scatter: with pairwise disjoint ranges, a position inside range j receives value bit t_j + (k - lo_j)
pub proof fn lemma_put_scatter(raw: u128, rs: Seq<(usize, usize)>, shift: int, v: u128, i: int, j: int, k: int)
    requires
        0 <= j < i <= rs.len(), disjoint(rs),
        rs[j].0 + shift <= k < rs[j].0 + shift + rs[j].1,
    ensures put_model(raw, rs, shift, v, i, k) == bit(v, total(rs, j) + k - rs[j].0 - shift)
    decreases i
{
    if i - 1 > j {
        // range i-1 does not contain k because it is disjoint from range j
        assert(rs[j].0 + rs[j].1 <= rs[i - 1].0 || rs[i - 1].0 + rs[i - 1].1 <= rs[j].0);
        lemma_put_scatter(raw, rs, shift, v, i - 1, j, k);
    }
}

/// C02/C04 read-back: reading a field from a register whose bits are given by put_model yields the written value
pub proof fn lemma_read_after_write(raw: u128, w: u128, rs: Seq<(usize, usize)>, shift: int, v: u128, i: int, m: int)
    requires
        0 <= i <= rs.len(), disjoint(rs), ranges_ok(rs, shift), 0 <= shift,
        forall|k: int| 0 <= k < 128 ==> bit(w, k) == put_model(raw, rs, shift, v, rs.len() as int, k),
        0 <= m < total(rs, i),
    ensures get_model(w, rs, shift, i, m) == bit(v, m)
    decreases i
{
    if i > 0 {
        let lo = rs[i - 1].0 as int; let n = rs[i - 1].1 as int; let t = total(rs, i - 1);
        lemma_total_mono(rs, i - 1, i);
        if t <= m < t + n {
            let k = lo + shift + m - t;
            assert(rs[i - 1].0 + shift + rs[i - 1].1 <= 128);
            lemma_put_scatter(raw, rs, shift, v, rs.len() as int, i - 1, k);
            assert(bit(w, k) == put_model(raw, rs, shift, v, rs.len() as int, k));
        } else {
            lemma_read_after_write(raw, w, rs, shift, v, i - 1, m);
        }
    }
}

// ---------------------------------------------------------------------------------------------------------------
// abstract register: a total map from bit index to bool; a write covers a set of bits and supplies their values

pub struct Write { pub covers: Set<int>, pub val: Map<int, bool> }

pub open spec fn step(st: Map<int, bool>, w: Write) -> Map<int, bool> {
    Map::new(st.dom(), |b: int| if w.covers.contains(b) { w.val[b] } else { st[b] })
}

pub open spec fn apply(st: Map<int, bool>, h: Seq<Write>) -> Map<int, bool>
    decreases h.len()
{
    if h.len() == 0 { st } else { step(apply(st, h.drop_last()), h.last()) }
}

/// last-write-wins reference semantics of C12
pub open spec fn lww(st: Map<int, bool>, h: Seq<Write>, b: int) -> bool
    decreases h.len()
{
    if h.len() == 0 { st[b] }
    else if h.last().covers.contains(b) { h.last().val[b] }
    else { lww(st, h.drop_last(), b) }
}

/// C12: after ANY finite history of writes every bit equals the bit supplied by the last write that covered it,
/// or its initial value if none did
pub proof fn lemma_history(st: Map<int, bool>, h: Seq<Write>, b: int)
    requires st.dom().contains(b)
    ensures apply(st, h).dom().contains(b), apply(st, h)[b] == lww(st, h, b)
    decreases h.len()
{
    if h.len() > 0 { lemma_history(st, h.drop_last(), b); }
}

/// C12: writes to disjoint bit sets commute
pub proof fn lemma_commute(st: Map<int, bool>, w1: Write, w2: Write)
    requires w1.covers.disjoint(w2.covers)
    ensures step(step(st, w1), w2) =~= step(step(st, w2), w1)
{
}

/// C12: a later write to the same bits overwrites the earlier one completely
pub proof fn lemma_overwrite(st: Map<int, bool>, w1: Write, w2: Write)
    requires w1.covers.subset_of(w2.covers)
    ensures step(step(st, w1), w2) =~= step(st, w2)
{
}

/// C12: overlapping fields alias coherently -- an observer of bit b sees the value of the write that covered it
pub proof fn lemma_alias(st: Map<int, bool>, w: Write, b: int)
    requires st.dom().contains(b)
    ensures step(st, w)[b] == (if w.covers.contains(b) { w.val[b] } else { st[b] })
{
}

/// C02/C03/C04/C17 frame at the abstract level: bits outside the write are unchanged
pub proof fn lemma_frame(st: Map<int, bool>, w: Write, b: int)
    requires st.dom().contains(b), !w.covers.contains(b)
    ensures step(st, w)[b] == st[b]
{
}

/// C11: if the initial state has no bit set at or above N and no write supplies a set bit at or above N
/// (that is what `ensures fits(result, N)` of every with_/set_/builder step says), no history creates one
pub open spec fn high_clear(st: Map<int, bool>, n: int) -> bool {
    forall|b: int| st.dom().contains(b) && b >= n ==> !#[trigger] st[b]
}

pub open spec fn write_keeps(w: Write, n: int) -> bool {
    forall|b: int| w.covers.contains(b) && b >= n ==> !#[trigger] w.val[b]
}

pub proof fn lemma_inv_history(st: Map<int, bool>, h: Seq<Write>, n: int)
    requires high_clear(st, n), forall|i: int| 0 <= i < h.len() ==> write_keeps(#[trigger] h[i], n)
    ensures high_clear(apply(st, h), n)
    decreases h.len()
{
    if h.len() > 0 {
        let p = h.drop_last();
        assert forall|i: int| 0 <= i < p.len() implies write_keeps(#[trigger] p[i], n) by { assert(p[i] == h[i]); }
        lemma_inv_history(st, p, n);
        let prev = apply(st, p);
        let w = h.last();
        assert(write_keeps(h[h.len() - 1], n));
        assert forall|b: int| step(prev, w).dom().contains(b) && b >= n implies !#[trigger] step(prev, w)[b] by {
            if w.covers.contains(b) { assert(!w.val[b]); } else { assert(!prev[b]); }
        }
    }
}

/// C13: builder().with_a(x)...build() == the start value with the writes applied in order; bits covered by no step keep the default
pub proof fn lemma_builder_chain(start: Map<int, bool>, steps: Seq<Write>, b: int)
    requires start.dom().contains(b), forall|i: int| 0 <= i < steps.len() ==> !(#[trigger] steps[i]).covers.contains(b)
    ensures apply(start, steps)[b] == start[b]
    decreases steps.len()
{
    lemma_history(start, steps, b);
    lemma_lww_uncovered(start, steps, b);
}

pub proof fn lemma_lww_uncovered(st: Map<int, bool>, h: Seq<Write>, b: int)
    requires forall|i: int| 0 <= i < h.len() ==> !(#[trigger] h[i]).covers.contains(b)
    ensures lww(st, h, b) == st[b]
    decreases h.len()
{
    if h.len() > 0 {
        let p = h.drop_last();
        assert(!h[h.len() - 1].covers.contains(b));
        assert forall|i: int| 0 <= i < p.len() implies !(#[trigger] p[i]).covers.contains(b) by { assert(p[i] == h[i]); }
        lemma_lww_uncovered(st, p, b);
    }
}

/// C04 / PT join: the `|` of per-range terms with pairwise disjoint supports takes, at every bit, the value of the one
/// term whose support contains it
pub proof fn lemma_union_disjoint(a: Map<int, bool>, sa: Set<int>, bm: Map<int, bool>, sb: Set<int>, k: int)
    requires sa.disjoint(sb),
        forall|x: int| !sa.contains(x) ==> !#[trigger] a[x], forall|x: int| !sb.contains(x) ==> !#[trigger] bm[x],
    ensures (a[k] || bm[k]) == (if sa.contains(k) { a[k] } else if sb.contains(k) { bm[k] } else { false })
{
    if sa.contains(k) { assert(!sb.contains(k)); }
}

// ---------------------------------------------------------------------------------------------------------------
// composition of the PT template postconditions (vlib/pt.py) into the accessor contracts, for EVERY layout.
// PT proves per template and for all parameters:  getter term i has value bit k  <=>  sl_i <= k < sl_i + n_i  and raw bit lo_i + s + (k - sl_i);
// scatter term i has register bit k <=> lo_i <= k < lo_i + n_i and value bit sr_i + (k - lo_i);  mask term i has bit k <=> lo_i <= k < lo_i + n_i;
// combine: result bit k = if mask bit k { new bit k } else { raw bit k }.
// Hypothesis left to the corpus (generator glue, not under contract): the i-th term is emitted with sl_i = sr_i = total(i) and the terms are joined with `|`.

pub open spec fn getter_term(raw: u128, lo: int, n: int, sl: int, s: int, k: int) -> bool {
    sl <= k < sl + n && bit(raw, lo + s + k - sl)
}

/// the `|`-join of the first i getter terms, each shifted to its accumulated target position
pub open spec fn getter_join(raw: u128, rs: Seq<(usize, usize)>, shift: int, i: int, k: int) -> bool
    decreases i
{
    if i <= 0 { false } else {
        getter_term(raw, rs[i - 1].0 as int, rs[i - 1].1 as int, total(rs, i - 1), shift, k) || getter_join(raw, rs, shift, i - 1, k)
    }
}

/// C01/C04 for all layouts: joined getter terms == get_model (hence == get_spec by adequacy)
pub proof fn lemma_getter_join(raw: u128, rs: Seq<(usize, usize)>, shift: int, i: int, k: int)
    requires 0 <= i <= rs.len(), 0 <= k
    ensures getter_join(raw, rs, shift, i, k) == get_model(raw, rs, shift, i, k)
    decreases i
{
    if i > 0 {
        lemma_getter_join(raw, rs, shift, i - 1, k);
        let t = total(rs, i - 1);
        if t <= k < t + rs[i - 1].1 {
            lemma_get_high(raw, rs, shift, i - 1, k);
        }
    }
}

pub open spec fn mask_join(rs: Seq<(usize, usize)>, i: int, k: int) -> bool
    decreases i
{
    if i <= 0 { false } else { (rs[i - 1].0 <= k < rs[i - 1].0 + rs[i - 1].1) || mask_join(rs, i - 1, k) }
}

pub open spec fn scatter_join(v: u128, rs: Seq<(usize, usize)>, i: int, k: int) -> bool
    decreases i
{
    if i <= 0 { false } else {
        ((rs[i - 1].0 <= k < rs[i - 1].0 + rs[i - 1].1) && bit(v, total(rs, i - 1) + k - rs[i - 1].0)) || scatter_join(v, rs, i - 1, k)
    }
}

/// the multi-range setter: clear the joined mask, OR in the joined scatter terms (PT `combine`), both moved up by `shift`
pub open spec fn setter_combine(raw: u128, v: u128, rs: Seq<(usize, usize)>, shift: int, i: int, k: int) -> bool {
    if mask_join(rs, i, k - shift) { scatter_join(v, rs, i, k - shift) } else { bit(raw, k) }
}

pub proof fn lemma_mask_join_covered(rs: Seq<(usize, usize)>, shift: int, i: int, k: int)
    requires 0 <= i <= rs.len()
    ensures mask_join(rs, i, k - shift) == covered(rs, shift, i, k)
    decreases i
{
    if i > 0 { lemma_mask_join_covered(rs, shift, i - 1, k); }
}

pub proof fn lemma_scatter_join_disjoint(v: u128, rs: Seq<(usize, usize)>, i: int, j: int, k: int)
    requires 0 <= j < i <= rs.len(), disjoint(rs), rs[j].0 <= k < rs[j].0 + rs[j].1
    ensures scatter_join(v, rs, i, k) == bit(v, total(rs, j) + k - rs[j].0)
    decreases i
{
    if i - 1 > j {
        assert(rs[j].0 + rs[j].1 <= rs[i - 1].0 || rs[i - 1].0 + rs[i - 1].1 <= rs[j].0);
        lemma_scatter_join_disjoint(v, rs, i - 1, j, k);
    } else {
        // i - 1 == j: the term of range j itself; earlier ranges do not contain k
        lemma_scatter_none_below(v, rs, j, j, k);
    }
}

pub proof fn lemma_scatter_none_below(v: u128, rs: Seq<(usize, usize)>, i: int, j: int, k: int)
    requires 0 <= i <= j < rs.len(), disjoint(rs), rs[j].0 <= k < rs[j].0 + rs[j].1
    ensures !scatter_join(v, rs, i, k)
    decreases i
{
    if i > 0 {
        assert(rs[i - 1].0 + rs[i - 1].1 <= rs[j].0 || rs[j].0 + rs[j].1 <= rs[i - 1].0);
        lemma_scatter_none_below(v, rs, i - 1, j, k);
    }
}

/// witness: a covered position lies in some range j < i
pub proof fn lemma_covered_wit(rs: Seq<(usize, usize)>, shift: int, i: int, k: int) -> (j: int)
    requires 0 <= i <= rs.len(), covered(rs, shift, i, k)
    ensures 0 <= j < i, rs[j].0 + shift <= k < rs[j].0 + shift + rs[j].1
    decreases i
{
    if rs[i - 1].0 + shift <= k < rs[i - 1].0 + shift + rs[i - 1].1 { i - 1 } else { lemma_covered_wit(rs, shift, i - 1, k) }
}

/// C02/C04 for all layouts with pairwise disjoint ranges: the combined multi-range setter == put_model (hence == put_spec by adequacy)
pub proof fn lemma_setter_combine(raw: u128, v: u128, rs: Seq<(usize, usize)>, shift: int, k: int)
    requires disjoint(rs), 0 <= shift
    ensures setter_combine(raw, v, rs, shift, rs.len() as int, k) == put_model(raw, rs, shift, v, rs.len() as int, k)
{
    let n = rs.len() as int;
    lemma_mask_join_covered(rs, shift, n, k);
    if covered(rs, shift, n, k) {
        let j = lemma_covered_wit(rs, shift, n, k);
        lemma_scatter_join_disjoint(v, rs, n, j, k - shift);
        lemma_put_scatter(raw, rs, shift, v, n, j, k);
    } else {
        lemma_put_frame(raw, rs, shift, v, n, k);
    }
}
