// selfoverlap_prelude.rs -- spec and lemmas for the UNBOUNDED Verus proof of the real
// `ranges_have_self_overlap` (bitbybit/src/bitfield/codegen.rs), whose text is re-extracted on every run (vlib/meta.py).
// `hit(e, j)`: the (array element e, range j) pair shares a bit with a pair that comes earlier in iteration order, i.e.
// some bit would be writable through two (element, range) pairs -- the C14 condition under which no builder may exist.



pub open spec fn ivlo(rs: Seq<Range<usize>>, stride: int, e: int, j: int) -> int { rs[j].start as int + e * stride }
pub open spec fn ivlen(rs: Seq<Range<usize>>, j: int) -> int { rs[j].end as int - rs[j].start as int }
pub open spec fn in_iv(rs: Seq<Range<usize>>, stride: int, e: int, j: int, k: int) -> bool {
    ivlo(rs, stride, e, j) <= k < ivlo(rs, stride, e, j) + ivlen(rs, j)
}

/// k is addressed by one of the first j ranges of element e
pub open spec fn cov_r(rs: Seq<Range<usize>>, stride: int, e: int, j: int, k: int) -> bool
    decreases j
{
    if j <= 0 { false } else { in_iv(rs, stride, e, j - 1, k) || cov_r(rs, stride, e, j - 1, k) }
}
/// k is addressed by some range of one of the first i elements
pub open spec fn cov_e(rs: Seq<Range<usize>>, stride: int, i: int, k: int) -> bool
    decreases i
{
    if i <= 0 { false } else { cov_r(rs, stride, i - 1, rs.len() as int, k) || cov_e(rs, stride, i - 1, k) }
}
/// k is addressed by a pair that comes before (i, j) in iteration order
pub open spec fn covered(rs: Seq<Range<usize>>, stride: int, i: int, j: int, k: int) -> bool {
    cov_e(rs, stride, i, k) || cov_r(rs, stride, i, j, k)
}
/// pair (e, j) shares a bit with an earlier pair
pub open spec fn hit(rs: Seq<Range<usize>>, stride: int, e: int, j: int) -> bool {
    exists|k: int| 0 <= k < 128 && in_iv(rs, stride, e, j, k) && covered(rs, stride, e, j, k)
}
pub open spec fn pre(rs: Seq<Range<usize>>, stride: int, count: int) -> bool {
    forall|j: int| 0 <= j < rs.len() ==> (#[trigger] rs[j]).start <= rs[j].end && 1 <= ivlen(rs, j) <= 127
        && (count >= 1 ==> rs[j].end as int + (count - 1) * stride <= 128)
}

proof fn lemma_mask_bits(n: u128, lo: u128, k: u128)
    requires n <= 127, lo + n <= 128, k < 128
    ensures (((((1u128 << n) - 1) as u128) << lo) >> k) & 1u128 == 1u128 <==> lo <= k < lo + n
{
    assert((((((1u128 << n) - 1) as u128) << lo) >> k) & 1u128 == 1u128 <==> lo <= k < lo + n) by (bit_vector)
        requires n <= 127, lo + n <= 128, k < 128;
}
proof fn lemma_shl_pos(n: u128)
    requires n <= 127
    ensures (1u128 << n) >= 1
{
    assert((1u128 << n) >= 1) by (bit_vector) requires n <= 127;
}
proof fn lemma_or(a: u128, b: u128, k: u128)
    requires k < 128
    ensures ((a | b) >> k) & 1u128 == 1u128 <==> ((a >> k) & 1u128 == 1u128 || (b >> k) & 1u128 == 1u128)
{
    assert(((a | b) >> k) & 1u128 == 1u128 <==> ((a >> k) & 1u128 == 1u128 || (b >> k) & 1u128 == 1u128)) by (bit_vector) requires k < 128;
}
proof fn lemma_and_witness(x: u128, y: u128, k: u128)
    requires k < 128, (x >> k) & 1u128 == 1u128, (y >> k) & 1u128 == 1u128
    ensures x & y != 0
{
    assert(x & y != 0) by (bit_vector) requires k < 128, (x >> k) & 1u128 == 1u128, (y >> k) & 1u128 == 1u128;
}
/// z != 0 and no bit at or above n  ==>  some bit below n is set
proof fn lemma_exists_bit(z: u128, n: int) -> (k: int)
    requires z != 0, 0 <= n <= 128, n < 128 ==> z >> (n as u128) == 0
    ensures 0 <= k < n, bit(z, k)
    decreases n
{
    if n == 0 {
        assert(z >> 0u128 == z) by (bit_vector);
        assert(false);
        0
    } else {
        let m = (n - 1) as u128;
        if (z >> m) & 1u128 == 1u128 {
            n - 1
        } else {
            if n < 128 {
                let nn = n as u128;
                assert(z >> m == 0) by (bit_vector) requires m < 127, nn == m + 1, z >> nn == 0, (z >> m) & 1u128 != 1u128;
            } else {
                assert(z >> m == 0) by (bit_vector) requires m == 127, (z >> m) & 1u128 != 1u128;
            }
            lemma_exists_bit(z, n - 1)
        }
    }
}
proof fn lemma_and_bits(x: u128, y: u128, k: u128)
    requires k < 128
    ensures ((x & y) >> k) & 1u128 == 1u128 <==> ((x >> k) & 1u128 == 1u128 && (y >> k) & 1u128 == 1u128)
{
    assert(((x & y) >> k) & 1u128 == 1u128 <==> ((x >> k) & 1u128 == 1u128 && (y >> k) & 1u128 == 1u128)) by (bit_vector) requires k < 128;
}


// ---- `hit` is the property's wording: two DISTINCT (element, range) pairs address the same bit -----------------------

pub proof fn lemma_cov_r_wit(rs: Seq<Range<usize>>, stride: int, e: int, j: int, k: int) -> (j2: int)
    requires cov_r(rs, stride, e, j, k)
    ensures 0 <= j2 < j, in_iv(rs, stride, e, j2, k)
    decreases j
{
    if in_iv(rs, stride, e, j - 1, k) { j - 1 } else { lemma_cov_r_wit(rs, stride, e, j - 1, k) }
}

pub proof fn lemma_cov_e_wit(rs: Seq<Range<usize>>, stride: int, i: int, k: int) -> (p: (int, int))
    requires cov_e(rs, stride, i, k)
    ensures 0 <= p.0 < i, 0 <= p.1 < rs.len(), in_iv(rs, stride, p.0, p.1, k)
    decreases i
{
    if cov_r(rs, stride, i - 1, rs.len() as int, k) {
        let j2 = lemma_cov_r_wit(rs, stride, i - 1, rs.len() as int, k);
        (i - 1, j2)
    } else {
        lemma_cov_e_wit(rs, stride, i - 1, k)
    }
}

pub proof fn lemma_cov_r_intro(rs: Seq<Range<usize>>, stride: int, e: int, j: int, j1: int, k: int)
    requires 0 <= j1 < j, in_iv(rs, stride, e, j1, k)
    ensures cov_r(rs, stride, e, j, k)
    decreases j
{
    if j - 1 > j1 { lemma_cov_r_intro(rs, stride, e, j - 1, j1, k); }
}

pub proof fn lemma_cov_e_intro(rs: Seq<Range<usize>>, stride: int, i: int, e1: int, j1: int, k: int)
    requires 0 <= e1 < i, 0 <= j1 < rs.len(), in_iv(rs, stride, e1, j1, k)
    ensures cov_e(rs, stride, i, k)
    decreases i
{
    if i - 1 > e1 { lemma_cov_e_intro(rs, stride, i - 1, e1, j1, k); } else { lemma_cov_r_intro(rs, stride, e1, rs.len() as int, j1, k); }
}

/// (=>) a hit names an EARLIER pair sharing bit k
pub proof fn lemma_hit_two_pairs(rs: Seq<Range<usize>>, stride: int, e: int, j: int) -> (w: (int, int, int))
    requires hit(rs, stride, e, j), 0 <= e, 0 <= j < rs.len()
    ensures
        0 <= w.2 < 128, in_iv(rs, stride, e, j, w.2), in_iv(rs, stride, w.0, w.1, w.2),
        0 <= w.1 < rs.len(), 0 <= w.0 <= e, (w.0 < e || w.1 < j),
{
    let k = choose|k: int| 0 <= k < 128 && in_iv(rs, stride, e, j, k) && covered(rs, stride, e, j, k);
    if cov_e(rs, stride, e, k) {
        let p = lemma_cov_e_wit(rs, stride, e, k);
        (p.0, p.1, k)
    } else {
        let j2 = lemma_cov_r_wit(rs, stride, e, j, k);
        (e, j2, k)
    }
}

/// (<=) two distinct pairs sharing a bit below 128: the later one in iteration order is a hit
pub proof fn lemma_two_pairs_hit(rs: Seq<Range<usize>>, stride: int, e1: int, j1: int, e2: int, j2: int, k: int)
    requires
        0 <= k < 128, 0 <= e1, 0 <= j1 < rs.len(), 0 <= j2 < rs.len(),
        e1 < e2 || (e1 == e2 && j1 < j2),
        in_iv(rs, stride, e1, j1, k), in_iv(rs, stride, e2, j2, k),
    ensures hit(rs, stride, e2, j2)
{
    if e1 < e2 { lemma_cov_e_intro(rs, stride, e2, e1, j1, k); } else { lemma_cov_r_intro(rs, stride, e2, j2, j1, k); }
    assert(covered(rs, stride, e2, j2, k));
}
