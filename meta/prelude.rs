// prelude.rs -- per-bit mathematical model that spec/spec.rs is proved against (Verus)

pub open spec fn bit(x: u128, k: int) -> bool {
    (x >> (k as u128)) & 1u128 == 1u128
}

/// number of field-value bits supplied by the first i ranges
pub open spec fn total(rs: Seq<(usize, usize)>, i: int) -> int
    decreases i
{
    if i <= 0 { 0 } else { total(rs, i - 1) + rs[i - 1].1 as int }
}

/// every addressed bit lies below bit 128 and the field value has at most 128 bits
pub open spec fn ranges_ok(rs: Seq<(usize, usize)>, shift: int) -> bool {
    &&& forall|i: int| 0 <= i < rs.len() ==> (#[trigger] rs[i]).0 + shift + rs[i].1 <= 128
    &&& total(rs, rs.len() as int) <= 128
}

/// C04 read: bit k of the field value is the (k - t_i)-th bit of the range i that supplies it (first range least significant)
pub open spec fn get_model(raw: u128, rs: Seq<(usize, usize)>, shift: int, i: int, k: int) -> bool
    decreases i
{
    if i <= 0 { false } else {
        let lo = rs[i - 1].0 as int; let n = rs[i - 1].1 as int; let t = total(rs, i - 1);
        if t <= k < t + n { bit(raw, lo + shift + k - t) } else { get_model(raw, rs, shift, i - 1, k) }
    }
}

/// C02/C04 write: bit k of the register after the write: supplied by the value if a range covers k, else unchanged
pub open spec fn put_model(raw: u128, rs: Seq<(usize, usize)>, shift: int, v: u128, i: int, k: int) -> bool
    decreases i
{
    if i <= 0 { bit(raw, k) } else {
        let lo = rs[i - 1].0 as int; let n = rs[i - 1].1 as int; let t = total(rs, i - 1);
        if lo + shift <= k < lo + shift + n { bit(v, t + k - lo - shift) } else { put_model(raw, rs, shift, v, i - 1, k) }
    }
}

pub proof fn lemma_total_mono(rs: Seq<(usize, usize)>, i: int, j: int)
    requires 0 <= i <= j
    ensures total(rs, i) <= total(rs, j), 0 <= total(rs, i)
    decreases j
{
    if j > 0 { if i < j { lemma_total_mono(rs, i, j - 1); } else { lemma_total_mono(rs, 0, j - 1); lemma_total_mono(rs, i - 1, j - 1); } }
}

pub proof fn lemma_get_high(raw: u128, rs: Seq<(usize, usize)>, shift: int, i: int, k: int)
    requires 0 <= i, k >= total(rs, i)
    ensures !get_model(raw, rs, shift, i, k)
    decreases i
{
    if i > 0 { lemma_total_mono(rs, i - 1, i); lemma_get_high(raw, rs, shift, i - 1, k); }
}

pub proof fn lemma_orbit(acc: u128, p: u128, k: u128)
    requires p < 128, k < 128
    ensures (((acc | (1u128 << p)) >> k) & 1u128 == 1u128) == (k == p || ((acc >> k) & 1u128 == 1u128))
{
    assert((((acc | (1u128 << p)) >> k) & 1u128 == 1u128) == (k == p || ((acc >> k) & 1u128 == 1u128))) by (bit_vector)
        requires p < 128, k < 128;
}

pub proof fn lemma_zero(k: u128)
    requires k < 128
    ensures !((0u128 >> k) & 1u128 == 1u128)
{
    assert(!((0u128 >> k) & 1u128 == 1u128)) by (bit_vector) requires k < 128;
}

pub proof fn lemma_setbit(acc: u128, pos: u128, vb: u128, k: u128)
    requires pos < 128, k < 128, vb <= 1
    ensures ((((acc & !(1u128 << pos)) | (vb << pos)) >> k) & 1u128 == 1u128)
            == (if k == pos { vb == 1u128 } else { (acc >> k) & 1u128 == 1u128 })
{
    assert(((((acc & !(1u128 << pos)) | (vb << pos)) >> k) & 1u128 == 1u128)
            == (if k == pos { vb == 1u128 } else { (acc >> k) & 1u128 == 1u128 })) by (bit_vector)
        requires pos < 128, k < 128, vb <= 1;
}
