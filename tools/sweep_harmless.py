#!/usr/bin/env python3
"""sweep_harmless.py [name ...] [--props=C01,C16]: run the checks against every kept BEHAVIOUR-PRESERVING change under
/verif/harmless/<name>/ (patch.diff + meta.json) on a scratch copy of /repo's HEAD.  Expected: every check exits 0.
Exit 2 (undecided / lost anchor) is tolerated but recorded; exit 1 is a FALSE ALARM and must be fixed in the machinery
(or the change turns out not to be harmless, which is then recorded in its meta.json and it moves to /verif/seeded)."""
import json, os, shutil, subprocess, sys, time
VERIF = os.path.dirname(os.path.dirname(os.path.abspath(__file__)))
ALL = [f"C{i:02d}" for i in range(1, 20) if i != 18]
args = [a for a in sys.argv[1:] if not a.startswith("--")]
props = ALL
for a in sys.argv[1:]:
    if a.startswith("--props"):
        props = a.split("=", 1)[1].split(",")
names = args or sorted(os.listdir(os.path.join(VERIF, "harmless")))
bad = 0
for name in names:
    hdir = os.path.join(VERIF, "harmless", name)
    if not os.path.exists(os.path.join(hdir, "patch.diff")):
        continue
    scratch = f"/root/scratch/sweeph/{name}"
    shutil.rmtree(scratch, ignore_errors=True)
    os.makedirs(scratch)
    subprocess.run(f"git -C /repo archive HEAD | tar -x -C {scratch} && cp /repo/Cargo.lock {scratch}/ && cd {scratch} && git init -q && git add -A && git commit -qm base && git apply {hdir}/patch.diff", shell=True, check=True)
    res_path = os.path.join(hdir, "result.json")
    old = json.load(open(res_path)) if os.path.exists(res_path) else {}
    for p in props:
        t0 = time.time()
        env = dict(os.environ, VERIF_REPO=scratch, VERIF_WORK=os.path.join(VERIF, ".work", "sweeph"))
        r = subprocess.run([os.path.join(VERIF, "check"), p, "--tier", os.environ.get("SWEEP_TIER", "quick")], cwd=VERIF, env=env,
                           stdout=subprocess.PIPE, stderr=subprocess.STDOUT, text=True)
        lines = [l for l in r.stdout.splitlines() if l.startswith("VIOLATION") or l.startswith("[") or l.startswith("KNOWN")]
        tail = r.stdout.splitlines()[-6:] if r.returncode != 0 else []
        old[p] = {"exit": r.returncode, "seconds": round(time.time() - t0, 1), "lines": lines[:12], "tail": tail}
        if r.returncode != 0:
            bad += 1
        print(name, p, "exit", r.returncode, f"{time.time()-t0:.0f}s", (lines[-1:] or [""])[0][:150], flush=True)
        json.dump(old, open(res_path, "w"), indent=1)
    shutil.rmtree(scratch, ignore_errors=True)
print("non-zero exits:", bad)
