#!/bin/bash
# thorough tier with several VERIF_SEED values (the seed only changes the random layouts and the CONST sample inputs)
cd "$(dirname "$0")/.."
for seed in ${@:-1 2 3}; do
  for p in C01 C02 C03 C04 C05 C06 C08 C11 C12 C13 C14 C15 C16 C17; do
    s=$(date +%s); out=$(VERIF_SEED=$seed ./check $p --tier thorough 2>&1); rc=$?; e=$(date +%s)
    echo "seed=$seed $p rc=$rc $((e-s))s $(echo "$out" | grep -E '^\[C' | tail -1)"
    if [ $rc -ne 0 ]; then echo "$out" | tail -12; fi
  done
done
