#!/usr/bin/env python3
"""sweep_seeds.py [seed-name ...] [--props C01,C16]: run the checks against every kept seeded change on a scratch copy of
/repo's HEAD (VERIF_REPO), record which check reports it.  The official procedure (git -C /repo apply ... ; checkout) is
equivalent; the scratch copy keeps /repo untouched while other work is going on."""
import json, os, shutil, subprocess, sys, time
VERIF = os.path.dirname(os.path.dirname(os.path.abspath(__file__)))
args = [a for a in sys.argv[1:] if not a.startswith("--")]
props_override = None
for a in sys.argv[1:]:
    if a.startswith("--props"):
        props_override = a.split("=", 1)[1].split(",")
seeds = args or sorted(os.listdir(os.path.join(VERIF, "seeded")))
for sname in seeds:
    sdir = os.path.join(VERIF, "seeded", sname)
    if not os.path.exists(os.path.join(sdir, "patch.diff")):
        continue
    meta = json.load(open(os.path.join(sdir, "meta.json")))
    scratch = f"/root/scratch/sweep/{sname}"
    shutil.rmtree(scratch, ignore_errors=True)
    os.makedirs(scratch)
    subprocess.run(f"git -C /repo archive HEAD | tar -x -C {scratch} && cp /repo/Cargo.lock {scratch}/ && cd {scratch} && git init -q && git add -A && git commit -qm base && git apply {sdir}/patch.diff", shell=True, check=True)
    props = props_override or [meta["breaks_property"]] + meta.get("also_check", [])
    results = {}
    for p in props:
        t0 = time.time()
        env = dict(os.environ, VERIF_REPO=scratch, VERIF_WORK=os.path.join(VERIF, ".work", "sweep"))
        r = subprocess.run([os.path.join(VERIF, "check"), p, "--tier", os.environ.get("SWEEP_TIER", "quick")], cwd=VERIF, env=env,
                           stdout=subprocess.PIPE, stderr=subprocess.STDOUT, text=True)
        lines = [l for l in r.stdout.splitlines() if l.startswith("VIOLATION") or l.startswith("[") or l.startswith("KNOWN")]
        results[p] = {"exit": r.returncode, "seconds": round(time.time() - t0, 1), "lines": lines[:12]}
        print(sname, p, "exit", r.returncode, f"{time.time()-t0:.0f}s", (lines[:1] or [""])[0][:150], flush=True)
    res_path = os.path.join(sdir, "result.json")
    old = json.load(open(res_path)) if os.path.exists(res_path) else {}
    old.update(results)
    json.dump(old, open(res_path, "w"), indent=1)
    shutil.rmtree(scratch, ignore_errors=True)
