#!/usr/bin/env python3
"""random_probe.py <seed> <prop> [count]: prove the X obligations of <prop> on <count> random layouts of the given seed
(used to check that the random-layout generator never produces something the machinery cannot handle)"""
import sys, os
sys.path.insert(0, os.path.dirname(os.path.dirname(os.path.abspath(__file__))))
from vlib import corpus, driver
seed, prop = int(sys.argv[1]), sys.argv[2]
n = int(sys.argv[3]) if len(sys.argv) > 3 else 40
out = driver.Outcome(prop, "thorough", seed)
progs = corpus.random_programs(seed, n)
try:
    driver.run_x(out, progs, prop, tag=f"rnd{prop}")
    bad = [o for o in out.obligations if not o["ok"]]
    print(f"seed={seed} {prop}: {len(out.obligations)} obligations, {len(bad)} failed, {len(out.violations)} violations", [b["name"] for b in bad[:3]], out.notes[:2])
except Exception as e:
    print(f"seed={seed} {prop}: EXC {str(e)[-600:]}")
