#!/usr/bin/env python3
"""writes /verif/MANIFEST.json from the table below (single source for levels, notes, commands)"""
import json, os, sys

HERE = os.path.dirname(os.path.dirname(os.path.abspath(__file__)))

X_NOTE = ("Trusted: rustc, Kani 0.68 MIR->goto, CBMC 6.11 + CaDiCaL; the dump equals the macro output up to spans; arbitrary-int UInt "
          "invariant assumed for symbolic inputs (checked for outputs); spec/spec.rs is the oracle. Proved per corpus declaration for ALL "
          "inputs; the generator's choice of template for declarations outside the corpus is not under contract.")

CHECKS = {
    "C01": ("proof", "4.1, 5 C01", "Kani function contracts on the real macro expansion",
            "Every getter of every corpus declaration carries requires(inv)/ensures(result == get_spec(raw, ranges)) on the dumped, "
            "in-place annotated real expansion and is discharged by proof_for_contract over the full symbolic raw value: a complete proof per "
            "(declaration, function); new_with_raw_value is under contract too so 'reading from new_with_raw_value(r)' closes from contracts. "
            "Corpus: all native bases + 12 arbitrary widths with boundary and word-boundary placements, all 15 ranges of u5 (thorough: all of u8/u9, every base width)."),
    "C02": ("proof", "4.1, 5 C02", "Kani function contracts (ensures/modifies/old) on the real macro expansion",
            "with_ and set_ of every writable corpus field are proved against the same put_spec term (set_ with modifies(self) and old()), "
            "read-back is proved from the with_ contract alone (stub_verified), set_==with_ and receiver-unchanged as loop-free lemmas; all raw values and all field values."),
    "C03": ("proof", "4.1, 5 C03", "Kani function contracts with symbolic index + should_panic/cover obligations",
            "Array accessors are proved with a symbolic index under requires(index<K) against get_spec/put_spec shifted by index*stride (gap bits are in the frame); "
            "for index>=K a should_panic harness plus an unreachable 'returned' cover proves that no out-of-range index ever returns and that the panic is an explicit one (not a profile-dependent overflow)."),
    "C04": ("proof", "4.1, 5 C04", "Kani function contracts with multi-range spec",
            "Non-contiguous getters/setters are proved against get_spec/put_spec over the ordered range list (reversed, shuffled, single-bit lists, arrays with stride incl. interleaved elements); read-back from the contract."),
    "C05": ("proof", "4.1, 5 C05", "Kani function contracts, two's-complement view",
            "Signed fields i8..i128 (plain, array, non-contiguous, full width) are proved with the view (v as uN) as u128; a sign-extension leak sets bits outside the ranges and fails the put_spec equality for a negative value."),
    "C06": ("proof", "4.1, 5 C06", "Kani function contracts + constant/layout harnesses",
            "new_with_raw_value/raw_value are under exact contracts for every base in the corpus (thorough: all 127 widths), the round trip is a lemma, ZERO/DEFAULT/new()/Default::default(), size_of/align_of/Copy are asserted for all default forms "
            "(literal in hex/binary/octal/decimal/suffixed notation, named constant, `=` and legacy `:`); the item shell (struct is Copy over one storage integer; ZERO, DEFAULT, new(), impl Default present exactly when declared) "
            "is first checked against the parsed expansion; BaseDataSize::new (storage = least native width) is under a Kani contract in the annotated copy of the generator."),
    "C07": ("proof", "4.1, 5 C07", "Kani function contracts on the dumped bitenum expansions",
            "The API shape is first checked against the parsed expansion (Self iff exhaustive = true, Result<Self, storage> otherwise, pub const fn); raw_value and new_with_raw_value of every corpus bitenum are proved against the declaration's discriminant table for all raw values of the storage type and all variants, both round trips as lemmas; "
            "unreachable!()/UInt::new panics are inside the proof. N in 1..=64 (quick: 14 widths), exhaustive sets for N<=8 declared out of order, conditional enums with cfg-gated variants."),
    "C08": ("proof", "4.1, 5 C08", "Kani function contracts, enum/nested conversions inlined",
            "Enum, Option<enum> and nested-bitfield fields are proved with the view discr(v) / inner raw value (1-bit, arbitrary, native 8/16/32/64 widths, arrays, range lists); the conversion functions are inlined real code in these proofs."),
    "C11": ("proof", "4.1, 5 C11", "representation invariant as pre/postcondition of every operation (Kani) + induction lemma (Verus)",
            "For arbitrary-int bases the invariant raw>>N==0 is a requires of every method and an ensures of every constructor/with_/set_/builder step; raw_value() is specified exactly; "
            "new_with_raw_value(x.raw_value()) has the same state as x (lemma), so every getter agrees. Plus a BOUNDED stand-in (not counted as proved): every enumerated single-field declaration on an arbitrary base "
            "whose field reaches above bit N-1 must be rejected by the real macro."),
    "C12": ("proof", "4.1, 4.4, 5 C12", "Kani write contracts as step hypothesis + lemmas from contracts only (Verus induction over histories)",
            "Every with_/set_ is proved to be a put_spec step; commutation of disjoint writes, aliasing of overlapping fields and same-field overwrite are proved from the contracts alone (writes stubbed by their verified contracts)."),
    "C13": ("proof", "4.1, 5 C13", "modular Kani contracts: builder steps proved against stub_verified(with_x)",
            "builder() starts at DEFAULT/0, every Partial<M>::with_x step is proved against the stubbed with_x contract (arrays: element i from position i), build() returns the state, and the whole chain equals nested put_spec over the start value with every step stubbed; intermediate types are written out so rustc checks the exact mask chain."),
    "C16": ("proof", "4.1, 5 C16", "Kani built-in overflow/shift/panic checks inside every contract harness",
            "All totality obligations (arithmetic overflow, shift distance, explicit panics, UInt::new, unreachable!) of every accessor, constructor, builder step and enum conversion are discharged for all inputs with overflow checks ON, "
            "so release (wrapping) and debug semantics cannot differ; the only permitted panic (index>=K) is proved to be explicit and unconditional."),
}

ACC_NOTE = ("BOUNDED stand-in, not a proof: parse_field / check_explicit_exhaustive consume syn trees and are out of reach of Verus (syn, quote!, iterator adapters, "
            "str slicing) and of Kani (ICE when syn::parse_str is reachable). The deciding step is the real rustc + real macro on a stated finite enumeration of declarations, "
            "compared with the rule as worded in the property; accepted declarations are additionally proved exact/total by Kani (proof per accepted program). "
            "Trusted: rustc diagnostics mapping, the rule oracle in vlib/model.py / vlib/acc.py.")
INV_NOTE = ("BOUNDED stand-in over the corpus: the inventory is syntactic (annotator parse of the real expansion) and 'does not compile' is decided by rustc, not by a verifier; "
            "only the frame half (read-only bits unchanged, builder value) is a Kani proof.")
CHECKS.update({
    "C09": ("translation_validation", "4.5, 5 C09", "bounded accept/reject enumeration (rustc + real macro vs rule oracle) + Kani contracts on accepted declarations",
            "Every declaration of a stated enumeration (quick ~1500, thorough ~3900 single-field declarations: bases, boundary bit positions, type widths n-1/n/n+1, arrays K x stride, range lists incl. reversed bounds) "
            "is compiled with the real macro and its verdict compared with the rule of C09 in both directions; accepted declarations go through unit X (sampled in quick), and an accepted rule-invalid declaration "
            "is additionally reported with the X obligation it breaks and a replayed concrete input.", ACC_NOTE),
    "C10": ("translation_validation", "4.5, 5 C10", "bounded accept/reject enumeration (rustc + real macro vs rule oracle) + Kani totality proofs on accepted enums",
            "Every bitenum declaration of a stated enumeration (N in 1..3(4) x variant count 1..2^N+1 x discriminant sets x exhaustive in true/false/conditional/omitted x cfg-gated variants (also after a doc comment); storage classes 0..128) "
            "is compiled with the real macro and compared with the rule of C10; every accepted enum's conversions are proved total and exact for all raw values by Kani.", ACC_NOTE),
    "C14": ("translation_validation", "4.5, 5 C14", "API inventory of the real expansion vs rule oracle + must/must-not-compile type-state programs (rustc)",
            "For 30+ layouts (complete/incomplete, with/without default, overlapping fields, overlapping array elements, self-overlapping range lists, read-only gaps, arbitrary bases) the parsed real expansion must contain builder() exactly when the rule allows it, "
            "the exact Partial<mask> chain with build() only on the final mask; the complete chain must compile in const context and every proper prefix, every chain with a step left out and swapped steps must not. "
            "The generator's overlap test `ranges_have_self_overlap` is PROVED for every number of ranges and array elements (Verus on the re-extracted real function text: result <=> two distinct (element, range) pairs share a bit) "
            "and additionally checked by bounded Kani harnesses that supply counterexamples.", INV_NOTE),
    "C17": ("translation_validation", "4.5, 5 C17", "API inventory of the real expansion vs access specifiers + must/must-not-compile programs + Kani frame contracts",
            "For every field kind x access in r/w/rw/none the parsed real expansion must contain exactly the granted functions with the declared signatures (getter, with_, set_, builder step) and none of the withheld ones; "
            "use of a granted accessor must compile, use of a withheld one must not; that read-only bits cannot change is the put_spec frame of every mutator, proved by Kani.", INV_NOTE),
})
CHECKS.update({
    "C15": ("other", "4.5, 5 C15", "rustc const evaluation of every generated operation against spec.rs (bounded stand-in) + inherited Kani proofs",
            "Every operation listed in C15 (ZERO, DEFAULT, new_with_raw_value, raw_value, every getter, every with_, builder(), steps, build(), both bitenum conversions) of ~60 corpus declarations initialises a const and is "
            "compared with spec.rs by const assertions (about 3700 const items, boundary + seeded inputs); the same operations are recomputed natively (black_box inputs, debug and release) and compared with the consts. "
            "Const-evaluability is a rustc fact no deductive verifier decides; equality for ALL inputs is inherited from the X proofs.",
            "BOUNDED stand-in on sampled inputs for const-evaluability; trusted: rustc const evaluator, determinism of safe integer code; all-input equality relies on the Kani proofs of C01-C08/C13."),
})
CHECKS.update({
    "C19": ("proof", "4.1, 5 C19", "Kani proof of Debug::fmt through the real core::fmt ({:?}) + exhaustive native execution stand-in ({:#?})",
            "For debug-enabled corpus structs the bytes written by the real Debug::fmt through the real core::fmt into a fixed sink are proved equal, for ALL raw values, to the text built by an independent formatter "
            "from get_spec values (struct name, fields in declaration order, name: value); loops unwound to the longest possible text with unwinding assertions. {:#?} is NOT proved (CBMC blows up in PadAdapter): "
            "stand-in = native execution of the real macro output for every raw value of bases <= 16 bits and seeded + boundary raw values above (both formats), labelled bounded in the evidence.",
            "Proof part: structs listed in the evidence (quick: <= 12-bit bases; thorough: all debug corpus structs up to u32), core::fmt is INSIDE the proof. Stand-in part: exhaustive by execution for <= 16-bit bases, sampled above; not counted as proved. Trusted: rustc, Kani, CBMC, spec/dbgspec.rs."),
})
NOT_YET = {}


def main():
    props = [json.loads(l) for l in open(os.path.join(HERE, "properties.jsonl"))]
    extra = {}
    p = os.path.join(HERE, "tools", "manifest_extra.json")
    if os.path.exists(p):
        extra = json.load(open(p))
    checks, na = [], []
    for pr in props:
        pid = pr["id"]
        if pid in CHECKS:
            cat, ref, tech, text = CHECKS[pid][:4]
            note = CHECKS[pid][4] if len(CHECKS[pid]) > 4 else X_NOTE
            checks.append({
                "property_id": pid,
                "quick_cmd": f"./check {pid} --tier quick",
                "thorough_cmd": f"./check {pid} --tier thorough",
                "evidence_file": f"/verif/evidence/{pid}.json",
                "replay_cmd_template": "./check --replay {path}",
                "engine": "X" if cat == "proof" else "stand-in",
                "level_claimed": {"category": cat, "text": text, "design_ref": "DESIGN.md " + ref},
                "level_note": note,
                "technique": tech,
            })
        else:
            na.append({"property_id": pid, "reason": NA.get(pid, "check not built yet (build in progress, DESIGN.md section 10)")})
    m = {
        "version": 1,
        "setup_cmd": "./setup.sh",
        "hooks": {
            "guard": "cargo feature verif_hooks on crate bitbybit",
            "enable": "dependency bitbybit = { path = \"/repo/bitbybit\", features = [\"verif_hooks\"] } with BITBYBIT_VERIF_DUMP_DIR=<dir> in the environment of rustc",
            "baseline_off_cmd": "cd /repo && cargo test --workspace --no-fail-fast --offline",
            "source_commits": ["88e596d"],  # hook; fix: commits 6fa87f7 221a90d a4b365f 5e45a26 are unguarded repairs
            "add_only": True,
        },
        "engines": [
            {"name": "X", "path": "vlib/xrun.py, vlib/driver.py, vlib/contracts.py, annotator/", "serves_properties": sorted(k for k, v in CHECKS.items() if v[0] == "proof") + ["C09", "C10", "C17"],
             "kind_free_text": "Kani function contracts (requires/ensures/modifies, proof_for_contract, stub_verified) attached in place to the dumped real macro expansion; counterexamples via cbmc --trace, replayed against the real macro"},
            {"name": "PT", "path": "vlib/pt.py", "serves_properties": ["C01", "C02", "C03", "C04", "C05", "C16"],
             "kind_free_text": "layout-parametric Kani obligations on the quote! templates re-extracted from codegen.rs (all lo/width/stride/count/index per storage width, symbolic bit position)"},
            {"name": "GEN", "path": "vlib/gen.py", "serves_properties": ["C06", "C09", "C10", "C11", "C14"],
             "kind_free_text": "generator helpers (BaseDataSize::new, is_int_size_regular_type, Exhaustive::matches, try_parse_arbitrary_int_type, ranges_have_self_overlap) under contract / bounded harness in an annotated per-run copy of bitbybit/src"},
            {"name": "META", "path": "vlib/meta.py, meta/, spec/spec.rs", "serves_properties": ["C01", "C02", "C03", "C04", "C05", "C08", "C11", "C12", "C13", "C17"],
             "kind_free_text": "Verus: adequacy of spec.rs (the real file, clauses in //@ comments) against the per-bit model; history / frame / invariant / builder-chain lemmas over the contracts"},
            {"name": "ACC/INV/CONST/DBG", "path": "vlib/acc.py, vlib/inv.py, vlib/constck.py, vlib/dbgck.py, vlib/standins.py", "serves_properties": ["C09", "C10", "C11", "C14", "C15", "C17", "C19"],
             "kind_free_text": "bounded stand-ins decided by the real rustc + real macro on enumerated programs (accept/reject, API inventory, const evaluation, native Debug enumeration); labelled bounded in every evidence file"},
        ],
        "checks": checks,
        "not_applicable": na,
        "notes": "See DESIGN.md. ./check <ID> [--tier quick|thorough]; VERIF_SEED seeds only the random layouts (10 quick / 40 thorough) and the sampled inputs of the stand-ins.",
    }
    m.update(extra)
    json.dump(m, open(os.path.join(HERE, "MANIFEST.json"), "w"), indent=1)
    print("MANIFEST.json written:", len(checks), "checks,", len(na), "not claimed")


NA = {
    "C18": "compile-regime facts (no_std name resolution, lints, absence of unsafe tokens): no function contract can express them and no "
           "deductive obligation decides them; deciding them needs a build matrix, a different technique (DESIGN.md section 5, C18)",
}

if __name__ == "__main__":
    main()
