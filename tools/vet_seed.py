#!/usr/bin/env python3
"""vet_seed.py <out-dir> <worktree>: confirm a seeded change independently (suite passes with it, demo fails with it,
demo passes without it) and, if confirmed, store it under /verif/seeded/<id>-<variant>/"""
import json, os, shutil, subprocess, sys, re

VERIF = os.path.dirname(os.path.dirname(os.path.abspath(__file__)))


def sh(cmd, cwd):
    r = subprocess.run(["bash", "-o", "pipefail", "-c", cmd], cwd=cwd, stdout=subprocess.PIPE, stderr=subprocess.STDOUT, text=True,
                       env=dict(os.environ, CARGO_NET_OFFLINE="true"))
    return r.returncode, r.stdout


def main():
    src, wt = sys.argv[1], sys.argv[2]
    meta = json.load(open(os.path.join(src, "meta.json")))
    pid, var = meta["property"], meta.get("variant", "a")
    ran = []
    sh("git checkout -q -- . && git clean -fdq bitbybit-tests/tests", wt)
    rc, out = sh(f"git apply --check {src}/patch.diff && git apply {src}/patch.diff", wt)
    if rc != 0:
        print("patch does not apply:", out[-500:]); return 1
    rc, out = sh("cargo test --workspace --offline 2>&1 | grep -E '^test result|error(\\[|:)' ", wt)
    ran.append({"cmd": "cargo test --workspace --offline (patched)", "out": out.strip().splitlines()[:6]})
    ok_suite = "128 passed; 0 failed" in out and "error" not in out
    demo = os.path.join(src, "demo.rs")
    if not os.path.exists(demo):
        print("no demo.rs (compile-time demo) -- vet by hand:", src); sh("git checkout -q -- .", wt); return 3
    os.makedirs(os.path.join(wt, "bitbybit-tests", "tests"), exist_ok=True)
    shutil.copy(demo, os.path.join(wt, "bitbybit-tests", "tests", "demo.rs"))
    rc1, out1 = sh("cargo test --offline -p bitbybit-tests --test demo 2>&1 | tail -15", wt)
    ran.append({"cmd": "cargo test -p bitbybit-tests --test demo (patched)", "rc": rc1, "out": out1.strip().splitlines()[-4:]})
    sh("git checkout -q -- .", wt)
    rc2, out2 = sh("cargo test --offline -p bitbybit-tests --test demo 2>&1 | tail -15", wt)
    ran.append({"cmd": "cargo test -p bitbybit-tests --test demo (unpatched)", "rc": rc2, "out": out2.strip().splitlines()[-4:]})
    sh("git clean -fdq bitbybit-tests/tests", wt)
    fails_with = "test result: FAILED" in out1 or ("error" in out1 and rc1 != 0)
    passes_without = "test result: ok" in out2 and rc2 == 0
    print(f"{pid}-{var}: suite_ok={ok_suite} demo_fails_with_patch={fails_with} demo_passes_without={passes_without}")
    if not (ok_suite and fails_with and passes_without):
        for r in ran:
            print(r)
        return 2
    dst = os.path.join(VERIF, "seeded", f"{pid}-{var}")
    os.makedirs(dst, exist_ok=True)
    shutil.copy(os.path.join(src, "patch.diff"), dst)
    shutil.copy(demo, dst)
    meta["confirmed_by_vetting"] = ran
    meta["breaks_property"] = pid
    json.dump(meta, open(os.path.join(dst, "meta.json"), "w"), indent=1)
    return 0


if __name__ == "__main__":
    sys.exit(main())
