#!/bin/bash
# runs every claimed check (quick by default) on /repo's current tree and prints a summary
tier=${1:-quick}
cd "$(dirname "$0")/.."
for p in $(python3 -c "import json; print(' '.join(c['property_id'] for c in json.load(open('MANIFEST.json'))['checks']))"); do
  s=$(date +%s)
  out=$(./check $p --tier $tier 2>&1); rc=$?
  e=$(date +%s)
  echo "$p rc=$rc $((e-s))s $(echo "$out" | grep -E '^\[C' | tail -1)"
  if [ $rc -ne 0 ]; then echo "$out" | tail -15; fi
done
