"""INV: the API inventory of the real expansion (parsed by the annotator) compared with the inventory the
declaration table predicts (C14 builder existence / type-state chain, C17 access specifiers), plus programs that
must / must not compile.  Bounded stand-in (translation validation over the corpus)."""
import os, re
from .model import *
from . import xrun, acc, contracts as C


def nows(s):
    """type/text comparison key: no white space, and `arbitrary_int::uN` is the same type as `uN`"""
    return re.sub(r"\s+", "", s or "").replace("::arbitrary_int::", "").replace("arbitrary_int::", "")


def impl_fns(inv):
    """{(canonical impl type, trait or None): {fn name: record}}"""
    out = {}
    for it in inv["items"]:
        if it["kind"] == "impl":
            d = out.setdefault((it["self_ty"], it.get("trait")), {})
            for m in it["items"]:
                if m["kind"] == "fn":
                    d[m["name"]] = m
    return out


def canon_int_ty(t):
    """`PartialS<0x1f>` -> `PartialS<31>`"""
    m = re.match(r"(\w+)<(0x[0-9a-fA-F]+|\d+)>$", nows(t))
    if m:
        return f"{m.group(1)}<{int(m.group(2), 0)}>"
    return nows(t)


def access_obligations(s: Struct, inv):
    """C17: [(name, ok, detail)] -- for each field exactly the functions its access specifier grants"""
    fns = impl_fns(inv)
    main = fns.get((s.name, None), {})
    partial_with = {}
    for (ty, tr), d in fns.items():
        if ty.startswith(f"{s.pname}<") and tr is None:
            for n in d:
                partial_with.setdefault(n, []).append(ty)
    obs = []
    for f in s.fields:
        base = f"{s.name}.{f.name}[{f.access or 'none'}]"
        g = main.get(f.name)
        if f.readable:
            ok = g is not None and g["vis"] == "pub" and nows(g["ret"]) == nows(f.ty.getter_ty()) and len(g["params"]) == (1 if f.array else 0) \
                and nows(g["recv"] or "") == "&self"
            obs.append((f"{base}/getter-present", ok, None if ok else f"getter missing or wrong signature: {g}"))
        else:
            ok = g is None
            obs.append((f"{base}/getter-absent", ok, None if ok else f"a getter `{f.name}` is emitted for a field without read access"))
        w, st = main.get(f"with_{f.base}"), main.get(f"set_{f.base}")
        if f.writable:
            npar = 2 if f.array else 1
            okw = w is not None and w["vis"] == "pub" and nows(w["recv"] or "") == "&self" and len(w["params"]) == npar \
                and nows(w["params"][-1]["ty"]) == nows(f.ty.setter_ty()) and nows(w["ret"]) in ("Self", s.name)
            oks = st is not None and st["vis"] == "pub" and nows(st["recv"] or "") == "&mutself" and len(st["params"]) == npar \
                and nows(st["params"][-1]["ty"]) == nows(f.ty.setter_ty())
            obs.append((f"{base}/with-present", okw, None if okw else f"with_{f.base} missing or wrong signature: {w}"))
            obs.append((f"{base}/set-present", oks, None if oks else f"set_{f.base} missing or wrong signature: {st}"))
            if s.builder_expected():
                okb = f"with_{f.base}" in partial_with
                obs.append((f"{base}/builder-step-present", okb, None if okb else f"the writable field {f.name} has no builder step (no impl of the builder type offers with_{f.base})"))
        else:
            obs.append((f"{base}/with-absent", w is None, None if w is None else f"with_{f.base} is emitted for a field without write access"))
            obs.append((f"{base}/set-absent", st is None, None if st is None else f"set_{f.base} is emitted for a field without write access"))
            ok = f"with_{f.base}" not in partial_with
            obs.append((f"{base}/builder-step-absent", ok, None if ok else f"a builder step with_{f.base} is emitted for a field without write access"))
    # anything following the accessor naming scheme of an UNDECLARED field is merely listed, never an alarm
    return obs


def enum_obligations(e: Enum, inv):
    """C07/C10: the conversion API of a bitenum has the shape its exhaustiveness declares: `Self` for exhaustive = true,
    `Result<Self, storage>` otherwise (conditional enums must stay fallible), both `pub const fn`"""
    fns = impl_fns(inv).get((e.name, None), {})
    obs = []
    rv, nw = fns.get("raw_value"), fns.get("new_with_raw_value")
    ok = rv is not None and rv["const"] and rv["vis"] == "pub" and (nows(rv["ret"]) == f"u{e.bits}" or f"UInt::<{e.holder},{e.bits}" in nows(rv["ret"]))
    obs.append((f"{e.name}/raw_value-signature", ok, None if ok else f"raw_value: {rv}"))
    if e.is_exhaustive:
        want = ("Self", e.name)
    else:
        want = (f"Result<Self,{e.holder}>", f"Result<{e.name},{e.holder}>")
    ok = nw is not None and nw["const"] and nw["vis"] == "pub" and nows(nw["ret"]) in want
    obs.append((f"{e.name}/new_with_raw_value-returns-{want[0]}", ok,
                None if ok else f"new_with_raw_value of an enum declared exhaustive = {e.exhaustive} returns `{nw and nw['ret']}` (const: {nw and nw['const']}); expected {want[0]}"))
    return obs


def shell_obligations(s: Struct, inv):
    """C06: the item shell around the accessors: Copy/Clone, the constants, the constructors and the Default impl exist
    exactly as the declaration asks (a missing `impl Default` would otherwise only show as a build failure of the proofs)"""
    fns = impl_fns(inv)
    main = fns.get((s.name, None), {})
    consts = {}
    for it in inv["items"]:
        if it["kind"] == "impl" and it["self_ty"] == s.name and it.get("trait") is None:
            for m in it["items"]:
                if m["kind"] == "const":
                    consts[m["name"]] = m
    st = [it for it in inv["items"] if it["kind"] == "struct" and it["name"] == s.name]
    obs = []
    attrs = " ".join(st[0]["attrs"]) if st else ""
    ok = bool(st) and "Copy" in attrs and "Clone" in attrs and len(st[0]["fields"]) == 1 and nows(st[0]["fields"][0]["ty"]) == s.sty
    obs.append((f"{s.name}/struct-is-Copy-over-one-{s.sty}", ok, None if ok else f"struct item: {st}"))
    for fn, params in (("raw_value", 0), ("new_with_raw_value", 1)):
        m = main.get(fn)
        ok = m is not None and m["const"] and m["vis"] == "pub" and len(m["params"]) == params
        obs.append((f"{s.name}/{fn}-pub-const", ok, None if ok else f"{fn}: {m}"))
    ok = "ZERO" in consts and consts["ZERO"]["vis"] == "pub"
    obs.append((f"{s.name}/ZERO-present", ok, None if ok else "pub const ZERO is missing"))
    has_default_impl = (s.name, "Default") in fns and "default" in fns[(s.name, "Default")]
    if s.default is not None:
        ok = "DEFAULT" in consts and consts["DEFAULT"]["vis"] == "pub"
        obs.append((f"{s.name}/DEFAULT-present", ok, None if ok else "pub const DEFAULT is missing although a default is declared"))
        m = main.get("new")
        ok = m is not None and m["const"] and m["vis"] == "pub" and not m["params"]
        obs.append((f"{s.name}/new-present", ok, None if ok else f"deprecated new(): {m}"))
        obs.append((f"{s.name}/impl-Default-present", has_default_impl, None if has_default_impl else "`impl Default` is missing although a default is declared"))
    return obs


def builder_obligations(s: Struct, inv):
    """C14: builder() offered exactly when sound; exact mask chain; build() only on the final mask"""
    fns = impl_fns(inv)
    main = fns.get((s.name, None), {})
    partials = {ty: d for (ty, tr), d in fns.items() if ty.startswith(f"{s.pname}<") and tr is None}
    obs = []
    expect = s.builder_expected()
    has = "builder" in main
    obs.append((f"{s.name}/builder-{'present' if expect else 'absent'}", has == expect,
                None if has == expect else (f"builder() is {'offered' if has else 'missing'} but the rule says it must {'not ' if not expect else ''}be offered")))
    if not expect:
        ok = not partials
        obs.append((f"{s.name}/no-partial-impls", ok, None if ok else f"Partial impls are emitted although no builder may exist: {sorted(partials)}"))
        return obs
    if not has:
        return obs
    b = main["builder"]
    ok = canon_int_ty(b["ret"]) == f"{s.pname}<0>" and b["const"] and not b["params"]
    obs.append((f"{s.name}/builder-returns-Partial<0>", ok, None if ok else f"builder signature: {b}"))
    chain = s.mask_chain()
    expected_types = {}
    for f, m0, m1 in chain:
        expected_types.setdefault(f"{s.pname}<{m0}>", {})[f"with_{f.base}"] = f"{s.pname}<{m1}>"
    final = chain[-1][2] if chain else 0
    expected_types.setdefault(f"{s.pname}<{final}>", {})["build"] = s.name
    for ty, d in sorted(expected_types.items()):
        have = partials.get(ty, {})
        for fn, ret in d.items():
            m = have.get(fn)
            ok = m is not None and canon_int_ty(m["ret"]) == ret
            obs.append((f"{s.name}/{ty}::{fn}->{ret}", ok, None if ok else f"expected `{fn}` on {ty} returning {ret}, found {m and m['ret']}"))
    for ty, have in sorted(partials.items()):
        for fn in have:
            ok = fn in expected_types.get(ty, {})
            obs.append((f"{s.name}/{ty}::{fn}-expected", ok, None if ok else f"`{fn}` is offered on {ty}, which the type-state chain does not allow (build() before every field is set, or a step out of order)"))
    return obs


# ---------------------------------------------------------------------------------------------------
# programs that must / must not compile

def value_expr(ty: FT):
    """a constant expression of the setter type"""
    k = ty.kind
    if k == "bool":
        return "true"
    if k == "uint":
        return f"u{ty.width}::new(1)"
    if k == "native":
        return f"1u{ty.width}"
    if k == "signed":
        return f"-1i{ty.width}"
    if k in ("enum", "optenum"):
        return f"{ty.ref.name}::{ty.ref.active()[0][0]}"
    if k == "nested":
        return f"{ty.ref.name}::ZERO"
    raise ValueError(k)


def arg_expr(f: Field):
    if f.array:
        return "[" + ", ".join(value_expr(f.ty) for _ in range(f.count)) + "]"
    return value_expr(f.ty)


class UseProg:
    def __init__(self, pid, base: Program, use_text, expect_compiles, what):
        self.pid, self.base, self.use, self.expect, self.what = pid, base, use_text, expect_compiles, what

    def text(self):
        return self.base.decl_text() + "\n" + self.use


def access_use_programs(p: Program):
    """C17 by use: one positive program using every granted accessor, one negative program per withheld accessor"""
    out = []
    for s in p.structs:
        pos = []
        k = 0
        for f in s.fields:
            idx = "0, " if f.array else ""
            idxo = "0" if f.array else ""
            uses = {
                "getter": (f.readable, f"let _ = s.{f.name}({idxo});"),
                "with": (f.writable, f"let _ = s.with_{f.base}({idx}{value_expr(f.ty)});"),
                "set": (f.writable, f"let mut m = s; m.set_{f.base}({idx}{value_expr(f.ty)});"),
            }
            for kind, (granted, stmt) in uses.items():
                if granted:
                    pos.append(stmt)
                else:
                    k += 1
                    out.append(UseProg(f"{p.pid}n{k}", p, f"pub fn use_(s: {s.name}) {{ {stmt} }}", False,
                                       f"{s.name}.{f.name} [{f.access or 'none'}]: {kind} must not exist"))
        out.append(UseProg(f"{p.pid}p{s.name}", p, f"pub fn use_(s: {s.name}) {{ {' '.join(pos)} }}", True,
                           f"{s.name}: every granted accessor is usable"))
    return out


def debug_access_programs():
    """C17 x `debug`: a write-only / inaccessible field must not gain a getter because the struct asks for Debug
    (on the unchanged tree such a declaration does not compile at all, which is what C19 states)"""
    out = []
    for acc_ in ("w", ""):
        s = Struct(f"Sacdbg{acc_ or 'none'}", 16, [Field("a", T_u(8), [(0, 8)], access="rw"), Field("k", T_u(8), [(8, 8)], access=acc_)], debug=True)
        p = Program(f"acdbg{acc_ or 'none'}", structs=[s], props=("C17",))
        out.append(UseProg(f"acdbg{acc_ or 'none'}n", p, f"pub fn use_(s: {s.name}) -> u8 {{ s.k() }}", False,
                           f"{s.name}.k [{acc_ or 'none'}] with the debug option: a getter must not exist"))
    return out


def builder_use_programs(p: Program):
    """C14: the full chain compiles (in const context); build() on every proper prefix and on every chain with one step
    left out must not compile; builder() itself must not compile when no builder may exist"""
    out = []
    for s in p.structs:
        S = s.name
        if not s.builder_expected():
            out.append(UseProg(f"{p.pid}nb{S}", p, f"pub fn use_() {{ let _ = {S}::builder(); }}", False, f"{S}::builder() must not exist"))
            continue
        chain = s.mask_chain()
        steps = [f".with_{f.base}({arg_expr(f)})" for f, _, _ in chain]
        out.append(UseProg(f"{p.pid}pb{S}", p, f"pub const BUILT_: {S} = {S}::builder(){''.join(steps)}.build();", True,
                           f"{S}: the complete chain in declaration order type-checks in const context"))
        k = 0
        for n in range(len(steps)):           # proper prefixes
            k += 1
            out.append(UseProg(f"{p.pid}nb{S}{k}", p, f"pub fn use_() {{ let _ = {S}::builder(){''.join(steps[:n])}.build(); }}", False,
                               f"{S}: build() after only {n} of {len(steps)} steps must not type-check"))
        for skip in range(len(steps)):        # one step left out
            if len(steps) < 2:
                break
            k += 1
            sub = steps[:skip] + steps[skip + 1:]
            out.append(UseProg(f"{p.pid}nb{S}{k}", p, f"pub fn use_() {{ let _ = {S}::builder(){''.join(sub)}.build(); }}", False,
                               f"{S}: chain without step {skip} ({chain[skip][0].name}) must not type-check"))
        if len(steps) >= 2:                   # swapped order
            k += 1
            sw = [steps[1], steps[0]] + steps[2:]
            out.append(UseProg(f"{p.pid}nb{S}{k}", p, f"pub fn use_() {{ let _ = {S}::builder(){''.join(sw)}.build(); }}", False,
                               f"{S}: the first two steps swapped must not type-check"))
    return out


def run_use_programs(work, tag, uses):
    """returns [(UseProg, ok, diag)]"""
    verdict, _ = acc.classify(work, tag, uses, lambda u: u.text())
    res = []
    for u in uses:
        compiled = verdict[u.pid] is None
        diag = None if compiled else verdict[u.pid][0]["message"][:200]
        res.append((u, compiled == u.expect, "compiles" if compiled else f"rejected: {diag}"))
    return res
