"""GEN: the few stage-1 (generator) functions whose arguments are not syn values, put under contract in a per-run
mechanical copy of /repo/bitbybit/src: bit_size.rs, bitenum.rs, bitfield/{mod,codegen,parsing}.rs are copied, the
annotator inserts #[kani::requires/ensures] in front of the named functions (this re-prints the token stream: comments and
layout are dropped, no token is changed) and a `#[cfg(kani)] mod verif_gen` is appended to the files whose private
items the harnesses need.  lib.rs is NOT copied (the two #[proc_macro_attribute] wrappers need a proc-macro crate);
a 4-line root declares the same modules."""
import os, shutil, json, re, subprocess
from . import xrun
from .xrun import Infra

CARGO = """[package]
name = "vgen"
version = "0.1.0"
edition = "2021"

[dependencies]
syn = { version = "2.0", features = ["full"] }
quote = "1.0"
proc-macro2 = "1.0"
arbitrary-int = "1.3.0"

[features]
verif_hooks = []

[workspace]

[lints.rust]
unexpected_cfgs = "allow"
"""

ROOT = """#![allow(dead_code, unused, clippy::all)]
extern crate proc_macro;
mod bit_size;
mod bitenum;
mod bitfield;
"""

CONTRACTS = {
    "bitfield/mod.rs": [
        {"impl": "BaseDataSize", "trait": None, "fn": "new", "attrs": [
            "kani::requires($ARG0 >= 1 && $ARG0 <= 128)",
            "kani::ensures(|r: &BaseDataSize| r.exposed == $ARG0 && r.internal >= $ARG0 && "
            "(r.internal == 8 || r.internal == 16 || r.internal == 32 || r.internal == 64 || r.internal == 128) && "
            "(r.internal == 8 || r.internal / 2 < $ARG0))"]},
        {"impl": "", "trait": None, "fn": "is_int_size_regular_type", "attrs": [
            "kani::ensures(|r: &bool| *r == ($ARG0 == 0 || $ARG0 == 8 || $ARG0 == 16 || $ARG0 == 32 || $ARG0 == 64 || $ARG0 == 128))"]},
    ],
    # Exhaustive::matches: its receiver holds a proc_macro2::Span; proof_for_contract on it did not finish in 10 minutes
    # (contract instrumentation over the Span enum), so its postcondition is asserted in a loop-free full-domain harness
}

HARNESS = {
    "bitfield/mod.rs": """
#[cfg(kani)]
mod verif_gen {
    use super::*;
    #[kani::proof_for_contract(BaseDataSize::new)]
    fn gen_base_data_size_new() { let in_size: usize = kani::any(); let _r = BaseDataSize::new(in_size); kani::cover!(true); }
    #[kani::proof_for_contract(is_int_size_regular_type)]
    fn gen_is_int_size_regular_type() { let in_size: usize = kani::any(); let _r = is_int_size_regular_type(in_size); kani::cover!(true); }
    // every UTF-8 string of at most LEN bytes (bounded stand-in for the &str argument)
    fn parse_oracle(b: &[u8]) -> Option<usize> {
        let len = b.len();
        if len >= 2 && b[0] == b'u' {
            let mut v = 0usize; let mut ok = true; let mut i = 1;
            while i < len {
                if b[i] >= b'0' && b[i] <= b'9' { v = v * 10 + (b[i] - b'0') as usize; }
                else if i == 1 && b[i] == b'+' && len > 2 { }
                else { ok = false; }
                i += 1;
            }
            if ok && v >= 1 && v < 128 && v != 8 && v != 16 && v != 32 && v != 64 { return Some(v); }
        }
        None
    }
    #[kani::proof]
    #[kani::unwind(UNWIND_PARSE)]
    fn gen_try_parse_arbitrary_int_type() {
        let in_b: [u8; LEN_PARSE] = kani::any();
        let in_len: usize = kani::any();
        kani::assume(in_len <= LEN_PARSE);
        if let Ok(s) = core::str::from_utf8(&in_b[..in_len]) {
            let r = try_parse_arbitrary_int_type(s);
            assert!(r == parse_oracle(&in_b[..in_len]));
            kani::cover!(r.is_some());
        }
    }
}
""",
    "bitenum.rs": """
#[cfg(kani)]
mod verif_gen {
    use super::*;
    // C10: `true` is right exactly when all values are present, `false` exactly when not, `conditional` always
    #[kani::proof]
    fn gen_exhaustive_matches() {
        let in_kind: u8 = kani::any();
        let kind = match in_kind { 0 => Exhaustiveness::True, 1 => Exhaustiveness::False, _ => Exhaustiveness::Conditional };
        let e = Exhaustive { span: Span::call_site(), kind };
        let in_expected: bool = kani::any();
        let r = e.matches(in_expected);
        assert!(match in_kind { 0 => r == in_expected, 1 => r == !in_expected, _ => r });
        kani::cover!(true);
    }
}
""",
    "bitfield/codegen.rs": """
#[cfg(kani)]
mod verif_gen {
    use super::*;
    // requires (from the call sites in make_builder): every range has 1 <= length <= 127 (a 128-bit single range is special-cased by the
    //   caller, lists and arrays cannot contain one) and every element of every range lies below bit 128
    // ensures: result <=> two distinct (element, range) pairs share a bit; no overflow, no panic
    fn body<const N: usize, const C: usize>() {
        let in_stride: usize = kani::any();
        kani::assume(in_stride <= 128);
        let mut st = [0usize; N]; let mut ln = [0usize; N];
        let mut i = 0;
        while i < N { st[i] = kani::any(); ln[i] = kani::any(); kani::assume(ln[i] >= 1 && ln[i] <= 127 && st[i] <= 128 && st[i] + ln[i] + (C - 1) * in_stride <= 128); i += 1; }
        let rs: [core::ops::Range<usize>; N] = core::array::from_fn(|k| st[k]..st[k] + ln[k]);
        let r = ranges_have_self_overlap(&rs, in_stride, C);
        // oracle by interval intersection over all pairs of distinct (element, range)
        let mut exp = false;
        let mut ea = 0;
        while ea < C { let mut ra = 0; while ra < N { let mut eb = 0; while eb < C { let mut rb = 0; while rb < N {
            if (ea, ra) != (eb, rb) {
                let (alo, an) = (st[ra] + ea * in_stride, ln[ra]); let (blo, bn) = (st[rb] + eb * in_stride, ln[rb]);
                if alo < blo + bn && blo < alo + an { exp = true; }
            }
            rb += 1; } eb += 1; } ra += 1; } ea += 1; }
        assert!(r == exp);
        kani::cover!(r); kani::cover!(!r);
    }
    #[kani::proof] #[kani::unwind(5)] fn gen_ranges_have_self_overlap_n2_c2() { body::<2, 2>(); }
    #[kani::proof] #[kani::unwind(5)] fn gen_ranges_have_self_overlap_n3_c1() { body::<3, 1>(); }
    #[kani::proof] #[kani::unwind(5)] fn gen_ranges_have_self_overlap_n1_c3() { body::<1, 3>(); }
    #[kani::proof] #[kani::unwind(5)] fn gen_ranges_have_self_overlap_n2_c1() { body::<2, 1>(); }
    #[kani::proof] #[kani::unwind(5)] fn gen_ranges_have_self_overlap_n3_c2() { body::<3, 2>(); }
    #[kani::proof] #[kani::unwind(5)] fn gen_ranges_have_self_overlap_n2_c3() { body::<2, 3>(); }
}
""",
}

# which property each GEN obligation supports
SERVES = {
    "gen_base_data_size_new": ("C06", "C11"),
    "gen_is_int_size_regular_type": ("C09",),
    "gen_try_parse_arbitrary_int_type": ("C09", "C11"),
    "gen_exhaustive_matches": ("C10",),
    "gen_ranges_have_self_overlap_n2_c2": ("C14",),
    "gen_ranges_have_self_overlap_n3_c1": ("C14",),
    "gen_ranges_have_self_overlap_n1_c3": ("C14",),
    "gen_ranges_have_self_overlap_n2_c1": ("C14",),
    "gen_ranges_have_self_overlap_n3_c2": ("C14t",),
    "gen_ranges_have_self_overlap_n2_c3": ("C14t",),
}

BOUNDS = {
    "gen_try_parse_arbitrary_int_type": "BOUNDED: every UTF-8 string of at most {len} bytes",
}
for _h in list(SERVES):
    if _h.startswith("gen_ranges_have_self_overlap"):
        BOUNDS[_h] = "BOUNDED: exactly N ranges x C array elements as named (n<N>_c<C>), loops unwound with unwinding assertions; start, length (<=127), stride symbolic"


def build(work, tier):
    d = os.path.join(work, "gen")
    shutil.rmtree(os.path.join(d, "src"), ignore_errors=True)
    os.makedirs(os.path.join(d, "src", "bitfield"), exist_ok=True)
    src = os.path.join(xrun.REPO, "bitbybit", "src")
    files = ["bit_size.rs", "bitenum.rs", "bitfield/mod.rs", "bitfield/codegen.rs", "bitfield/parsing.rs"]
    for f in files:
        if not os.path.exists(os.path.join(src, f)):
            raise Infra(f"GEN anchor lost: {f} does not exist in /repo/bitbybit/src")
        shutil.copy(os.path.join(src, f), os.path.join(d, "src", f))
    xrun.write(os.path.join(d, "src", "lib.rs"), ROOT)
    xrun.write(os.path.join(d, "Cargo.toml"), CARGO)
    xrun.write(os.path.join(d, ".cargo", "config.toml"), "[net]\noffline = true\n")
    shutil.copy(os.path.join(xrun.REPO, "Cargo.lock"), os.path.join(d, "Cargo.lock"))
    xrun.ensure_annotator()
    job = []
    for f, recs in CONTRACTS.items():
        p = os.path.join(d, "src", f)
        job.append({"dump": p, "contracts": recs, "out": p + ".ann", "inventory": p + ".json"})
    xrun.write(os.path.join(d, "job.json"), json.dumps(job))
    rc, out = xrun.sh([xrun.ANNOTATOR, os.path.join(d, "job.json")])
    if rc != 0:
        raise Infra("GEN: annotator failed (anchor lost?):\n" + out[-2000:])
    lost = []
    for j in job:
        inv = json.load(open(j["inventory"]))
        lost += [f"{u['impl']}::{u['fn']}" for u in inv["unmatched_contracts"]]
        shutil.move(j["out"], j["dump"])
    plen = 3 if tier == "quick" else 4
    for f, text in HARNESS.items():
        t = text.replace("LEN_PARSE", str(plen)).replace("UNWIND_PARSE", str(plen + 3))
        with open(os.path.join(d, "src", f), "a") as fh:
            fh.write(t)
    return d, lost, plen


def run(work, tier, want=None):
    """returns {harness: result dict}, lost anchors, meta"""
    d, lost, plen = build(work, tier)
    if lost:
        return {}, lost, {}, plen
    outj = os.path.join(d, "out.json")
    if os.path.exists(outj):
        os.remove(outj)
    cmd = ["cargo", "kani", "-Z", "function-contracts", "-Z", "stubbing", "-Z", "unstable-options", "-j", "8", "--output-format", "terse",
           "--export-json", outj, "--harness-timeout", "900s"]
    for w in (want or []):
        cmd += ["--harness", w]
    env = {"CARGO_TARGET_DIR": os.path.join(xrun.WORK, "target-gen")}
    rc, out = xrun.sh(cmd, cwd=d, env=env, timeout=3600)
    if not os.path.exists(outj):
        raise Infra("GEN: cargo kani produced no results (does the copy still compile?):\n" + out[-3000:])
    dj = json.load(open(outj))
    res = {}
    stats = {c["harness_id"]: c.get("cbmc_stats") or {} for c in dj.get("cbmc", [])}
    for r in dj["verification_results"]["results"]:
        short = r["harness_id"].split("::")[-1]
        res[short] = {"status": r["status"], "checks": r["checks"], "solver_s": stats.get(r["harness_id"], {}).get("runtime_solver_s", 0.0)}
    os.remove(outj)
    return res, lost, {"kani": dj["metadata"]["kani_version"]}, plen


def add_obligations(out, prop, work=None):
    """runs the GEN obligations that support `prop` and adds them to the outcome; failures become violations"""
    from . import driver
    work = work or os.path.join(xrun.WORK, prop)
    os.makedirs(work, exist_ok=True)
    want = [h for h, ps in SERVES.items() if prop in ps or (out.tier == "thorough" and prop + "t" in ps)]
    if not want:
        return
    try:
        res, lost, meta, plen = run(work, out.tier, want)
    except Infra as e:
        # the generator was restructured (a helper renamed or removed): the copy with the harness modules no longer builds.
        # The helper obligations are UNDECIDED in this run; the property's other obligations still decide it.
        out.notes.append("GEN: generator-helper obligations UNDECIDED in this run (the annotated copy does not build): " + str(e)[-300:])
        out.extra["gen_undecided"] = "copy does not build"
        res, lost, meta, plen = {}, [], {}, 0
        want = []
    if lost:
        out.notes.append(f"GEN: anchors lost ({lost}); generator-helper obligations undecided in this run (not a violation)")
        out.extra["gen_undecided"] = lost
        return
    items = []
    for h in want:
        if h not in res:
            out.notes.append(f"GEN: harness {h} did not run (undecided)")
            continue
        r = res[h]
        failed = [c for c in r["checks"] if c["status"] in ("Failure", "Failed")]
        undet = [c for c in r["checks"] if c["status"] == "Undetermined"]
        covers = [c for c in r["checks"] if c.get("category") == "cover"]
        if undet and not failed:
            out.notes.append(f"GEN: harness {h} undetermined")
            continue
        if covers and not any(c["status"] == "Satisfied" for c in covers):
            raise Infra(f"GEN: vacuous harness {h}")
        ok = r["status"] == "Success" and not failed
        name = f"{prop}/gen/{h}"
        out.add_ob(name, "gen-bounded" if h in BOUNDS else "gen", "Kani/CBMC+CaDiCaL on the annotated copy of bitbybit/src", ok)
        out.functions.add("bitbybit::" + h[len("gen_"):])
        out.solver_s += r.get("solver_s") or 0.0
        if h in BOUNDS:
            out.bounded.append(f"{h}: " + BOUNDS[h].format(len=plen))
        if not ok:
            c = failed[0]
            items.append({"obligation": name, "detail": f"{c.get('function')}: {driver.norm_ws(c.get('description', ''))[:300]}",
                          "program_text": "generator helper in the annotated copy of /repo/bitbybit/src", "inputs": None, "src": None,
                          "verifier_output": {"failed_checks": [{k: c2.get(k) for k in ("function", "description", "category", "location")} for c2 in failed[:5]]}})
    if prop == "C14":
        # unbounded: the real function text, re-extracted, with Verus clauses inserted at anchors (vlib/verusgen.py)
        from . import verusgen
        vr = verusgen.run(os.path.join(work, "verusgen"))
        name = "C14/verus/ranges_have_self_overlap (all numbers of ranges and array elements)"
        if vr["status"] == "undecided":
            out.notes.append("Verus proof of ranges_have_self_overlap UNDECIDED in this run (" + vr["detail"][:200] + "); the bounded GEN harnesses above stand")
            out.extra["verus_selfoverlap"] = "undecided"
        else:
            ok = vr["status"] == "proved"
            out.add_ob(name, "gen-unbounded", "Verus/Z3 on the re-extracted real function text", ok)
            out.functions.add("bitbybit::ranges_have_self_overlap [Verus, unbounded]")
            out.solver_s += (vr.get("ms") or 0) / 1000.0
            out.extra["verus_selfoverlap"] = vr["status"]
            if not ok:
                items.append({"obligation": name, "detail": "Verus rejects the postcondition `result <=> two distinct (element, range) pairs share a bit` for the real function text",
                              "program_text": "fn ranges_have_self_overlap of /repo/bitbybit/src/bitfield/codegen.rs with the clauses of vlib/verusgen.py inserted",
                              "verifier_output": {"verus": vr["detail"][:2500]}, "inputs": None, "src": None})
    if items:
        driver.report_violations(out, items, kind="gen")
