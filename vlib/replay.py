"""Replays: a failed obligation + the verifier's counterexample are run against the REAL macro (no hooks,
no dump, no annotation) in a tiny crate.  The replay program is stored in the replay file when the violation is
found, so `./check --replay <file>` needs nothing but /repo and the file."""
import json, os, shutil, hashlib, subprocess
from .model import *
from . import xrun

MAIN_TMPL = """#![allow(dead_code, unused_imports, deprecated, non_camel_case_types, unused_parens, unused_variables, unused_mut, arithmetic_overflow, unconditional_panic, overflowing_literals, unreachable_patterns)]
use arbitrary_int::*;
use bitbybit::{{bitenum, bitfield}};
mod spec;
use spec::*;

{decls}

{helpers}

fn run() -> Result<String, String> {{
{body}
}}

fn main() {{
    let expect_panic = {expect_panic};
    let r = std::panic::catch_unwind(|| run());
    match r {{
        Ok(Ok(m)) => {{ println!("HELD: {{}}", m); std::process::exit(0) }}
        Ok(Err(m)) => {{ println!("VIOLATED: {{}}", m); std::process::exit(1) }}
        Err(_) => {{
            if expect_panic {{ println!("HELD: panicked as required"); std::process::exit(0) }}
            println!("VIOLATED: the operation panicked"); std::process::exit(1)
        }}
    }}
}}
"""


def helpers(p: Program):
    out = []
    for e in p.enums:
        out.append(e.spec_fns())
        out.append(e.from_discr_fn())
    dbg = [s for s in p.structs if s.debug]
    if dbg:
        from . import contracts as C
        out.append("mod dbgspec { " + open(os.path.join(xrun.VERIF, "spec", "dbgspec.rs")).read() + " }\nuse dbgspec::Sink;\n")
        for s in dbg:
            out.append(C.debug_spec_fn(s))
    return "".join(out)


def hidden_state_check(s: Struct, t):
    """C11 observation: t and new_with_raw_value(t.raw_value()) agree through every getter"""
    lines = [f"let u_ = {s.name}::new_with_raw_value({t}.raw_value());",
             f"if !({t} == u_) {{ return Err(\"hidden state: the value differs (derived PartialEq on the storage) from new_with_raw_value(raw_value()) of itself\".to_string()); }}"]
    for g in s.fields:
        if not g.readable:
            continue
        for i in (range(g.count) if g.array else [None]):
            a = f"{i}" if i is not None else ""
            # compare through the u128 view where possible
            if g.ty.kind == "optenum":
                cmpx = (f"match ({t}.{g.name}({a}), u_.{g.name}({a})) {{ (Ok(x_), Ok(y_)) => discr_{g.ty.ref.name}(x_) == discr_{g.ty.ref.name}(y_), "
                        f"(Err(x_), Err(y_)) => x_ == y_, _ => false }}")
            else:
                cmpx = f"{g.ty.view(f'{t}.{g.name}({a})', pub=True)} == {g.ty.view(f'u_.{g.name}({a})', pub=True)}"
            lines.append(f"if !({cmpx}) {{ return Err(format!(\"hidden state: getter {g.name}({a}) differs after a round trip through raw_value()\")); }}")
    return "\n    ".join(lines)


def body_for(p: Program, h, inp):
    """Rust body of run() for harness h with concrete inputs inp (dict of ints); None if this kind has no replay"""
    s, f, e = h.struct, h.fld, h.enum
    g = lambda k, d=0: int(inp.get(k, d))
    u = lambda v: f"{v}u128"
    k = h.kind
    if s is not None:
        mk = s.make(u(g("in_raw")))
        fits_ok = g("in_raw") < (1 << s.base_bits)
    idx = g("in_index")
    if k in ("get", "oob_get"):
        call = f"s_.{f.name}({idx})" if f.array else f"s_.{f.name}()"
        shift = idx * f.stride if f.array else 0
        pred = f.ty.result_pred("(&r_)", "bits_", pub=True)
        tail = 'Err("an out-of-range index returned a value".to_string())' if k == "oob_get" else \
            f'if {pred} {{ Ok(format!("getter agrees with spec bits {{:#x}}", bits_)) }} else {{ Err(format!("getter result does not present spec bits {{:#x}} (raw {{:#x}})", bits_, {u(g("in_raw"))})) }}'
        if k == "oob_get":
            return f"    let s_ = {mk}; let r_ = {call}; {tail}"
        return f"    let s_ = {mk}; let r_ = {call}; let bits_ = get_spec({u(g('in_raw'))}, {f.ranges_lit()}, {shift}); {tail}"
    if k in ("with", "set", "oob_with", "oob_set", "setwith"):
        val = from_view(f.ty, u(g("in_val_v")))
        shift = idx * f.stride if f.array else 0
        args = f"{idx}, {val}" if f.array else val
        if k in ("with", "oob_with"):
            op = f"let t_ = s_.with_{f.base}({args});"
        else:
            op = f"let mut t_ = s_; t_.set_{f.base}({args});"
        if k.startswith("oob"):
            return f"    let s_ = {mk}; {op} Err(\"an out-of-range index returned\".to_string())"
        if k == "setwith":
            return (f"    let s_ = {mk}; let w_ = s_.with_{f.base}({args}); let mut m_ = s_; m_.set_{f.base}({args});\n"
                    f"    if {s.pubraw('s_')} != {u(g('in_raw'))} {{ return Err(\"with_ changed its receiver\".to_string()); }}\n"
                    f"    if {s.pubraw('m_')} == {s.pubraw('w_')} {{ Ok(\"set_ and with_ agree\".to_string()) }} else {{ Err(format!(\"set_ gives {{:#x}}, with_ gives {{:#x}}\", {s.pubraw('m_')}, {s.pubraw('w_')})) }}")
        return (f"    let s_ = {mk}; {op}\n    let exp_ = put_spec({u(g('in_raw'))}, {f.ranges_lit()}, {shift}, {u(g('in_val_v'))});\n"
                f"    if {s.pubraw('t_')} != exp_ {{ return Err(format!(\"raw value after the write is {{:#x}}, spec says {{:#x}}\", {s.pubraw('t_')}, exp_)); }}\n"
                f"    {hidden_state_check(s, 't_')}\n    Ok(format!(\"write agrees with spec {{:#x}}\", exp_))")
    if k == "rb":
        val = from_view(f.ty, u(g("in_val_v")))
        args = f"{idx}, {val}" if f.array else val
        rd = f"{idx}" if f.array else ""
        pred = f.ty.result_pred("(&g_)", u(g("in_val_v")), pub=True)
        return (f"    let s_ = {mk}; let g_ = s_.with_{f.base}({args}).{f.name}({rd});\n"
                f"    if {pred} {{ Ok(\"read-back returns what was written\".to_string()) }} else {{ Err(\"read-back differs from the written value\".to_string()) }}")
    if k == "ctor" or k == "rt":
        x = g("in_val")
        return (f"    let s_ = {s.make(u(x))};\n    if {s.pubraw('s_')} == {u(x)} {{ Ok(\"raw value round-trips\".to_string()) }} "
                f"else {{ Err(format!(\"new_with_raw_value({{:#x}}).raw_value() == {{:#x}}\", {u(x)}, {s.pubraw('s_')})) }}")
    if k == "raw":
        return (f"    let s_ = {mk};\n    if {s.pubraw('s_')} == {u(g('in_raw'))} {{ Ok(\"raw_value() returns the state\".to_string()) }} "
                f"else {{ Err(format!(\"raw_value() == {{:#x}}\", {s.pubraw('s_')})) }}")
    if k == "consts":
        lines = [f"if {s.pubraw(s.name + '::ZERO')} != 0 {{ return Err(\"ZERO is not zero\".to_string()); }}",
                 f"if core::mem::size_of::<{s.name}>() != {s.storage // 8} {{ return Err(\"size\".to_string()); }}",
                 f"if core::mem::align_of::<{s.name}>() != core::mem::align_of::<{s.sty}>() {{ return Err(\"alignment\".to_string()); }}"]
        if s.default is not None:
            d = u(s.default.value)
            for ex in (f"{s.name}::DEFAULT", f"{s.name}::new()", f"<{s.name} as Default>::default()"):
                lines.append(f"if {s.pubraw(ex)} != {d} {{ return Err(format!(\"{ex} has raw value {{:#x}}\", {s.pubraw(ex)})); }}")
        return "    " + "\n    ".join(lines) + "\n    Ok(\"constants carry the declared values\".to_string())"
    if k in ("enum_new", "enum_rt"):
        x = g("in_val")
        E = e.name
        mkx = f"({x}u128 as {e.holder})" if e.raw_is_native else f"u{e.bits}::new({x}u128 as {e.holder})"
        if e.is_exhaustive:
            return (f"    let r_ = {E}::new_with_raw_value({mkx});\n    if discr_{E}(r_) == {u(x)} {{ Ok(\"variant matches\".to_string()) }} "
                    f"else {{ Err(format!(\"new_with_raw_value({x}) returned the variant with discriminant {{}}\", discr_{E}(r_))) }}")
        return (f"    match {E}::new_with_raw_value({mkx}) {{\n"
                f"        Ok(v_) => if discr_{E}(v_) == {u(x)} {{ Ok(\"variant matches\".to_string()) }} else {{ Err(format!(\"returned the variant with discriminant {{}}\", discr_{E}(v_))) }},\n"
                f"        Err(e_) => if (e_ as u128) == {u(x)} && !is_discr_{E}({u(x)}) {{ Ok(\"Err(x) for a value without variant\".to_string()) }} else {{ Err(format!(\"returned Err({{}})\", e_)) }},\n    }}")
    if k == "enum_raw":
        v = g("in_val_v")
        E = e.name
        rv = "(r_ as u128)" if e.raw_is_native else "(r_.value() as u128)"
        return (f"    let r_ = from_discr_{E}({u(v)}).raw_value();\n    if {rv} == {u(v)} {{ Ok(\"raw_value is the discriminant\".to_string()) }} "
                f"else {{ Err(format!(\"raw_value() == {{}}\", {rv})) }}")
    if k in ("chain", "step", "builder", "build"):
        if not s.builder_expected():
            return None
        acc = u(s.start_value())
        calls = []
        for kk, (ff, m0, m1) in enumerate(s.mask_chain()):
            if ff.array:
                vals = []
                for i in range(ff.count):
                    key = f"a{kk}_{i}_v" if f"a{kk}_{i}_v" in inp else None
                    v = g(key) if key else ((g("in_raw") >> (ff.ranges[0][0] + i * ff.stride)) & ((1 << ff.ranges[0][1]) - 1) if ff.contiguous else 0)
                    if ff.ty.kind in ("enum", "optenum"):
                        ds = [vv for _, vv in ff.ty.ref.active()]
                        if v not in ds:
                            v = ds[0]
                    vals.append(v)
                    acc = f"put_spec({acc}, {ff.ranges_lit()}, {i * ff.stride}, {u(v)})"
                calls.append(f".with_{ff.base}([" + ", ".join(from_view(ff.ty, u(v)) for v in vals) + "])")
            else:
                key = f"a{kk}_v"
                v = g(key) if key in inp else 0
                if ff.ty.kind in ("enum", "optenum"):
                    ds = [vv for _, vv in ff.ty.ref.active()]
                    if v not in ds:
                        v = ds[0]
                acc = f"put_spec({acc}, {ff.ranges_lit()}, 0, {u(v)})"
                calls.append(f".with_{ff.base}({from_view(ff.ty, u(v))})")
        return (f"    let r_ = {s.name}::builder(){''.join(calls)}.build();\n    let exp_ = {acc};\n"
                f"    if {s.pubraw('r_')} == exp_ {{ Ok(format!(\"builder result agrees with spec {{:#x}}\", exp_)) }} "
                f"else {{ Err(format!(\"builder result {{:#x}}, spec {{:#x}}\", {s.pubraw('r_')}, exp_)) }}")
    if k == "debug":
        return (f"    let s_ = {mk};\n    let got_ = format!(\"{{:?}}\", s_);\n    let mut e_ = dbgspec::Sink::new(); exp_{s.name}({u(g('in_raw'))}, false, 0, &mut e_);\n"
                f"    let want_ = String::from_utf8_lossy(&e_.buf[..e_.len]).to_string();\n"
                f"    if got_ == want_ {{ Ok(format!(\"Debug text is the required text: {{}}\", got_)) }} else {{ Err(format!(\"Debug prints `{{}}`, required `{{}}`\", got_, want_)) }}")
    if k in ("overwrite", "commute", "alias"):
        return None
    return None


def program_source(p: Program, h, inp):
    b = body_for(p, h, inp)
    if b is None:
        return None
    import re
    decls = re.sub(r"(#\[bitfield\([^\n]*\)\]\n)", r"\1#[derive(PartialEq)]\n", p.decl_text())
    return MAIN_TMPL.format(decls=decls, helpers=helpers(p), body=b,
                            expect_panic="true" if h.expect == "panic" else "false")


REPLAY_CARGO = """[package]
name = "vreplay"
version = "0.1.0"
edition = "2021"

[dependencies]
bitbybit = {{ path = "{repo}/bitbybit" }}
arbitrary-int = "1.3.0"

[features]
test123 = []

[workspace]

[lints.rust]
unexpected_cfgs = "allow"

[profile.release]
overflow-checks = false
debug-assertions = false
opt-level = 3
"""


def run_sources(srcs, tag="replay", profiles=("debug", "release")):
    """builds all replay programs as binaries of ONE crate (one build per profile) and runs them.
    returns a list (same order) of [(profile, rc, output)]; rc None when the program did not build"""
    d = os.path.join(xrun.WORK, f"{tag}-{os.getpid()}")
    shutil.rmtree(d, ignore_errors=True)
    xrun.write(os.path.join(d, "Cargo.toml"), REPLAY_CARGO.format(repo=xrun.REPO))
    xrun.write(os.path.join(d, ".cargo", "config.toml"), "[net]\noffline = true\n")
    shutil.copy(os.path.join(xrun.REPO, "Cargo.lock"), os.path.join(d, "Cargo.lock"))
    shutil.copy(os.path.join(xrun.VERIF, "spec", "spec.rs"), os.path.join(d, "src", "spec.rs")) if os.path.isdir(os.path.join(d, "src")) else None
    os.makedirs(os.path.join(d, "src", "bin"), exist_ok=True)
    shutil.copy(os.path.join(xrun.VERIF, "spec", "spec.rs"), os.path.join(d, "src", "spec.rs"))
    for k, src in enumerate(srcs):
        xrun.write(os.path.join(d, "src", "bin", f"r{k}.rs"), src.replace("mod spec;", '#[path = "../spec.rs"]\nmod spec;', 1))
    res = [[] for _ in srcs]
    tdir = os.path.join(xrun.WORK, f"target-replay-{tag}")
    for prof in profiles:
        cmd = ["cargo", "build", "--offline", "-q", "--bins", "--keep-going"] + (["--release"] if prof == "release" else [])
        rc, out = xrun.sh(cmd, cwd=d, env={"CARGO_TARGET_DIR": tdir}, timeout=1800)
        for k in range(len(srcs)):
            exe = os.path.join(tdir, prof, f"r{k}")
            if not os.path.exists(exe):
                res[k].append((prof, None, "replay program did not build:\n" + out[-1500:]))
                continue
            try:
                r = subprocess.run([exe], stdout=subprocess.PIPE, stderr=subprocess.STDOUT, text=True, timeout=120,
                                   env=dict(os.environ, RUST_BACKTRACE="0"))
                res[k].append((prof, r.returncode, r.stdout[-2000:]))
            except subprocess.TimeoutExpired:
                res[k].append((prof, None, "timeout"))
    shutil.rmtree(d, ignore_errors=True)
    shutil.rmtree(tdir, ignore_errors=True)
    return res


def run_source(src, tag="replay", profiles=("debug", "release")):
    """builds and runs a replay program with the real macro; returns [(profile, rc, output)]"""
    d = os.path.join(xrun.WORK, f"{tag}-{os.getpid()}")
    shutil.rmtree(d, ignore_errors=True)
    xrun.write(os.path.join(d, "Cargo.toml"), REPLAY_CARGO.format(repo=xrun.REPO))
    xrun.write(os.path.join(d, ".cargo", "config.toml"), "[net]\noffline = true\n")
    shutil.copy(os.path.join(xrun.REPO, "Cargo.lock"), os.path.join(d, "Cargo.lock"))
    xrun.write(os.path.join(d, "src", "main.rs"), src)
    shutil.copy(os.path.join(xrun.VERIF, "spec", "spec.rs"), os.path.join(d, "src", "spec.rs"))
    res = []
    for prof in profiles:
        cmd = ["cargo", "run", "--offline", "-q"] + (["--release"] if prof == "release" else [])
        rc, out = xrun.sh(cmd, cwd=d, env={"CARGO_TARGET_DIR": os.path.join(xrun.WORK, "target-replay"), "RUST_BACKTRACE": "0"}, timeout=600)
        out = "\n".join(l for l in out.splitlines() if "WARNING conda" not in l)
        res.append((prof, rc, out[-2000:]))
    shutil.rmtree(d, ignore_errors=True)
    return res
