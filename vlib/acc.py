"""ACC: bounded stand-in for the accept/reject properties C09 and C10.
The deciding step is the real rustc running the real macro on an enumerated space of declarations; the verdict of
each declaration is compared with the acceptance rule as worded in the property (model.Struct.valid / enum_rule).
Labelled bounded: the enumeration is stated, nothing here is a proof about parse_field / check_explicit_exhaustive.
Every accepted declaration can additionally be pushed through unit X (proof per accepted program)."""
import os, shutil, json, hashlib
from .model import *
from . import xrun

# ---------------------------------------------------------------------------------------------------
# C09 enumeration


def _ty_for(kind, w):
    if kind == "bool":
        return T_bool()
    if kind == "i":
        return T_i(w)
    return T_u(w)


def _mk(pid, base, fields, note):
    s = Struct(f"A{pid}", base, fields)
    p = Program(pid, structs=[s], props=("C09",), note=note)
    return p


def c09_decls(tier, seed=0):
    """list of Programs (one struct each); expected verdict = struct.valid()"""
    out = []
    k = [0]

    def add(base, fields, note):
        k[0] += 1
        out.append(_mk(f"a{k[0]:04d}", base, fields, note))

    bases = [8, 5, 24, 32, 128] if tier == "quick" else [8, 16, 5, 9, 24, 32, 48, 64, 127, 128]
    for W in bases:
        Wst = storage(W)
        pts = sorted({x for x in (0, 1, 2, W - 2, W - 1, W, W + 1, Wst - 1, Wst, Wst + 1, 7, 8, 9) if 0 <= x <= 130})
        small = W in (8, 5) or (tier == "thorough" and W in (9, 16))
        pairs = set()
        if small:
            lim = min(W + 2, 10)
            pairs |= {(lo, hi) for lo in range(lim) for hi in range(lo, lim)}
        pairs |= {(lo, hi) for lo in pts for hi in pts if lo <= hi and hi - lo + 1 <= 128}
        if tier == "quick" and not small:
            pairs = {(lo, hi) for (lo, hi) in pairs if hi in (W - 1, W, Wst - 1, Wst) or lo == 0 or hi - lo < 2}
        for lo, hi in sorted(pairs):
            n = hi - lo + 1
            tys = [("u", n)]
            if n + 1 <= 128 and (small or hi >= W - 1):
                tys.append(("u", n + 1))
            if n - 1 >= 1 and (small or hi >= W - 1):
                tys.append(("u", n - 1))
            if n in (8, 16, 32, 64, 128) and lo in (0, 1):
                tys.append(("i", n))
            if n <= 2:
                tys.append(("bool", 1))
            for kind, w in tys:
                add(W, [Field("f", _ty_for(kind, w), [(lo, n)])], f"single range {lo}..={hi} as {kind}{w}")
                if n == 1 and lo in (0, W - 1, W):
                    add(W, [Field("f", _ty_for(kind, w), [(lo, n)], style="range1")], f"one-bit range bits({lo}..={lo}) as {kind}{w}")
        # reversed bounds (lo > hi), alone and hidden inside a list whose widths happen to add up
        for lo, hi in ((5, 3), (3, 2), (W - 1, 0)):
            if lo < W + 2 and lo > hi >= 0:
                n = hi - lo + 1  # <= 0
                add(W, [Field("f", T_u(1), [(lo, n)])], f"reversed range {lo}..={hi}")
        if W >= 9:
            add(W, [Field("f", T_u(8), [(0, 9), (5, -1)])], "list [0..=8, 5..=3] typed u8 (widths add up to 8)")
            add(W, [Field("f", T_u(4), [(0, 2), (6, -1), (3, 3)])], "list [0..=1, 6..=4, 3..=5] typed u4")
            # reversed by EXACTLY one (an empty entry): the other entries already supply the full type width
            add(W, [Field("f", T_u(8), [(0, 8), (9, 0)])], "list [0..=7, 9..=8] typed u8 (empty entry last)")
            add(W, [Field("f", T_u(8), [(5, 0), (0, 8)])], "list [5..=4, 0..=7] typed u8 (empty entry first)")
            add(W, [Field("f", T_u(4), [(0, 2), (3, 0), (4, 2)])], "list [0..=1, 3..=2, 4..=5] typed u4 (empty entry in the middle)")
            add(W, [Field("f", T_u(4), [(0, 4), (1, 0)], array=(2, 4))], "array over list [0..=3, 1..=0] typed [u4; 2] stride 4")
        # arrays
        for n, kind in ((1, "bool"), (1, "u"), (3, "u"), (8, "u")):
            if n > W:
                continue
            for lo in (0, 1):
                kmax = max(0, (W - lo - n) // n + 1)
                for K in sorted({0, 1, 2, 3, kmax, kmax + 1}):
                    if K > 130:
                        continue
                    for stride in (None, n - 1, n, n + 1):
                        if stride is not None and stride < 0:
                            continue
                        if tier == "quick" and stride == n + 1 and K not in (2, kmax):
                            continue
                        if K == 0:
                            continue   # `[T; 0]` makes the macro's usize arithmetic underflow: outside the rule's grammar of K>=... kept out (see DESIGN)
                        sty = ("std", "stride_first", "access_first_colon", "stride_mid")[(K + lo + (stride or 0)) % 4]
                        add(W, [Field("f", _ty_for(kind, n), [(lo, n)], array=(K, stride), style=sty)],
                            f"array [{kind}{n}; {K}] at {lo} stride {stride} ({sty} spelling)")
                # last element exactly reaching / overshooting with a wide stride
                for stride in (n + 2,):
                    for K in (2, 3):
                        top = lo + (K - 1) * stride + n
                        add(W, [Field("f", _ty_for(kind, n), [(0, n)], array=(K, stride))], f"array stride {stride} K {K}")
        # range lists
        lists = [
            [(0, 2), (W - 2, 2)], [(W - 2, 2), (0, 2)], [(0, 1), (2, 1), (4, 1)], [(W - 1, 1), (0, 3)],
            [(0, 2), (W - 1, 2)], [(0, 2), (W, 2)], [(Wst - 1, 1), (0, 3)], [(Wst, 1), (0, 3)],
        ]
        for rl in lists:
            if any(lo < 0 for lo, _ in rl):
                continue
            tot = sum(n for _, n in rl)
            for w in (tot, tot + 1):
                add(W, [Field("f", T_u(w), rl)], f"list {rl} as u{w}")
            # as array elements: stride given / missing
            for stride in (None, tot + 3):
                add(W, [Field("f", T_u(tot), rl, array=(2, stride))], f"list {rl} array stride {stride}")
    # custom-typed fields (bitenum, Option<bitenum>, nested bitfield): the type's raw width must equal the bits selected,
    # whatever the access specifier (a write-only field has no getter whose type check would catch a mismatch)
    for W in (16, 32) if tier == "quick" else (16, 24, 32, 128):
        for tw in (2, 8, 16):
            for n in sorted({tw, tw - 1, tw + 1, 8, 16} - {0}):
                if n < 1 or n > W:
                    continue
                for acc_ in ("rw", "w", "r"):
                    for kind in ("enum", "optenum", "nested"):
                        k[0] += 1
                        pid = f"a{k[0]:04d}"
                        if kind == "nested":
                            inner = Struct(f"N{pid}", tw, [Field("v", T_u(tw), [(0, tw)])])
                            ty, enums, structs = FT("nested", tw, inner), [], [inner]
                        else:
                            total = 1 << tw
                            if kind == "enum" and tw > 8:
                                continue
                            vals = list(range(total)) if kind == "enum" else [0, total - 1]
                            e = Enum(f"X{pid}", tw, [(f"V{i}", v) for i, v in enumerate(vals)], exhaustive="true" if kind == "enum" else None)
                            ty, enums, structs = FT(kind, tw, e), [e], []
                        st = Struct(f"A{pid}", W, [Field("f", ty, [(0, n)], access=acc_)])
                        out.append(Program(pid, enums=enums, structs=structs + [st], props=("C09",),
                                           note=f"{kind} of {tw} bits in a {n}-bit field, access {acc_}"))
    return out


# ---------------------------------------------------------------------------------------------------
# C10 enumeration


class EnumDecl:
    def __init__(self, pid, text, expect, note, enum=None):
        self.pid, self.text, self.expect, self.note, self.enum = pid, text, expect, note, enum


def enum_rule(N, variants, exhaustive):
    """C10 as worded.  variants: list of (name, discr_text or None, literal_value or None, cfg or None)"""
    if not (1 <= N <= 64):
        return False
    for _, txt, val, cfg in variants:
        if txt is None or val is None:
            return False            # missing or non-literal discriminant
        if val >= (1 << N):
            return False
    has_cfg = any(cfg for *_, cfg in variants)
    if has_cfg and exhaustive != "conditional":
        return False
    count = len(variants)
    full = count == (1 << N)
    if exhaustive == "conditional":
        return True
    if count > (1 << N):
        return False
    if exhaustive == "true":
        return full
    return not full                  # false or omitted


def c10_decls(tier, seed=0):
    out = []
    k = [0]

    def add(N, variants, exhaustive, note, reprs=None, storage_txt=None, doc_first=False):
        k[0] += 1
        pid = f"e{k[0]:04d}"
        name = f"B{pid}"
        args = [storage_txt or f"u{N}"]
        if exhaustive is not None:
            args.append(f"exhaustive = {exhaustive}")
        lines = [f"#[bitenum({', '.join(args)})]", "#[derive(Debug, PartialEq)]"]
        if reprs:
            lines.append(f"#[repr({reprs})]")
        lines.append(f"pub enum {name} {{")
        for vn, txt, val, cfg in variants:
            if doc_first and cfg:
                lines.append("    /// documented variant (the cfg attribute is not the first attribute)")
            if cfg == "off":
                lines.append('    #[cfg(feature = "test123")]')
            elif cfg == "on":
                lines.append('    #[cfg(not(feature = "test123"))]')
            lines.append(f"    {vn} = {txt}," if txt is not None else f"    {vn},")
        lines.append("}")
        expect = enum_rule(N, variants, exhaustive)
        en = None
        if expect:
            en = Enum(name, N, [(vn, val) + ((cfg,) if cfg else ()) for vn, txt, val, cfg in variants],
                      exhaustive=exhaustive, repr=reprs)
        out.append(EnumDecl(pid, "\n".join(lines), expect, note, en))

    def lit(v):
        return (str(v), v)

    Ns = (1, 2, 3) if tier == "quick" else (1, 2, 3, 4)
    for N in Ns:
        total = 1 << N
        for count in range(1, total + 2):
            sets = {"dense": list(range(count))}
            if count <= total:
                s = list(range(count - 1)) + [total - 1]
                if len(set(s)) == count:
                    sets["top"] = s
                s2 = list(range(count - 1)) + [total]
                sets["toolarge"] = s2
            for sname, vals in sets.items():
                for ex in ("true", "false", "conditional", None):
                    variants = [(f"V{i}", str(v), v, None) for i, v in enumerate(vals)]
                    if len(set(vals)) != len(vals):
                        continue
                    add(N, variants, ex, f"u{N} {count} variants {sname} exhaustive={ex}")
            # missing and non-literal discriminants
            if count <= total:
                base = [(f"V{i}", str(i), i, None) for i in range(count)]
                for ex in ("false", None, "conditional", "true"):
                    miss = list(base)
                    miss[-1] = (miss[-1][0], None, None, None)
                    add(N, miss, ex, f"u{N} {count} variants, last without discriminant, exhaustive={ex}")
                    nonlit = list(base)
                    nonlit[-1] = (nonlit[-1][0], f"{count - 1} + 0", None, None)
                    add(N, nonlit, ex, f"u{N} {count} variants, last discriminant an expression, exhaustive={ex}")
            # cfg-gated variants: one variant gated off; an on/off pair for the same discriminant
            if 2 <= count <= total:
                for ex in ("true", "false", "conditional", None):
                    gated = [(f"V{i}", str(i), i, None) for i in range(count)]
                    gated[-1] = (gated[-1][0], gated[-1][1], gated[-1][2], "off")
                    add(N, gated, ex, f"u{N} {count} variants, last cfg-gated off, exhaustive={ex}")
                    add(N, gated, ex, f"u{N} {count} variants, last cfg-gated off after a doc comment, exhaustive={ex}", doc_first=True)
                pair = [(f"V{i}", str(i), i, None) for i in range(count - 1)]
                pair += [("Von", str(count - 1), count - 1, "on"), ("Voff", str(count - 1), count - 1, "off")]
                for ex in ("conditional", "false"):
                    add(N, pair, ex, f"u{N} {count + 1} declared variants (cfg alternatives), exhaustive={ex}")
    # storage-class boundaries
    for N in (0, 8, 9, 16, 17, 32, 33, 63, 64, 65, 128):
        top = (1 << N) - 1 if N else 0
        rep = "u64" if N >= 63 else None
        for vals, note in (([0, 1], "small"), ([0, top], "top value"), ([0, top + 1], "value 2^N")):
            if N == 0 and note != "small":
                continue
            if len(set(vals)) != 2:
                continue
            if vals[-1] >= (1 << 64) and N <= 64:
                # a discriminant above u64::MAX cannot even be written for repr(u64): leave to rustc, still rule-invalid
                pass
            variants = [(f"V{i}", hex(v), v, None) for i, v in enumerate(vals)]
            for ex in ("false", None):
                add(N, variants, ex, f"storage u{N}, {note}, exhaustive={ex}", reprs=rep if vals[-1] < (1 << 64) else "u128")
    return out


# ---------------------------------------------------------------------------------------------------
# classification by the real compiler

def classify(work, tag, items, text_of, hooks=False, max_pass=4):
    """items: objects with .pid; text_of(item) -> declaration text.
    returns {pid: None (accepted) | [error dicts] (rejected at compile time)} and the dump dir (if hooks)."""
    verdict = {}
    remaining = list(items)
    ddir = os.path.join(work, tag + "-dump")
    for _ in range(max_pass):
        cdir = os.path.join(work, tag)
        shutil.rmtree(cdir, ignore_errors=True)
        shutil.rmtree(ddir, ignore_errors=True)
        os.makedirs(ddir)
        progs = []
        for it in remaining:
            progs.append(_TextProgram(it.pid, text_of(it)))
        spans = xrun.corpus_crate(cdir, "va_" + tag.replace("-", "_"), progs, hooks=hooks)
        env = {"BITBYBIT_VERIF_DUMP_DIR": ddir} if hooks else None
        rc, errors, other = xrun.cargo_check_json(cdir, os.path.join(xrun.WORK, "target-corpus"), env=env, cmd="build")
        if rc != 0 and not errors:
            raise xrun.Infra("ACC crate failed without diagnostics:\n" + "\n".join(other[-30:]))
        hit = {}
        loose = []
        for er in errors:
            pid = None
            if er["line"] is not None:
                for kpid, (a, b) in spans.items():
                    if a <= er["line"] <= b:
                        pid = kpid
            if pid is None:
                loose.append(er)
            else:
                hit.setdefault(pid, []).append(er)
        if loose and not hit:
            raise xrun.Infra("ACC diagnostics not attributable to a declaration:\n" + "\n".join(e["rendered"] for e in loose[:4]))
        for pid, es in hit.items():
            verdict[pid] = es
        remaining = [it for it in remaining if it.pid not in hit]
        if not hit:
            break
    else:
        raise xrun.Infra("ACC classification did not reach a fixpoint")
    for it in remaining:
        verdict[it.pid] = None
    return verdict, ddir


class _TextProgram:
    def __init__(self, pid, text):
        self.pid, self._t = pid, text
        self.mod = f"d_{pid}"

    def decl_text(self):
        return self._t


ACC_REPLAY_MAIN = """#![allow(dead_code, unused_imports, deprecated, non_camel_case_types, unused_parens)]
use arbitrary_int::*;
use bitbybit::{{bitenum, bitfield}};
{decl}
fn main() {{}}
"""


def replay_compile(decl_text):
    """compiles a declaration with the real macro (no hooks); returns (compiles: bool, diagnostics)"""
    from . import replay as RP
    d = os.path.join(xrun.WORK, f"accreplay-{os.getpid()}")
    shutil.rmtree(d, ignore_errors=True)
    xrun.write(os.path.join(d, "Cargo.toml"), RP.REPLAY_CARGO.format(repo=xrun.REPO))
    xrun.write(os.path.join(d, ".cargo", "config.toml"), "[net]\noffline = true\n")
    shutil.copy(os.path.join(xrun.REPO, "Cargo.lock"), os.path.join(d, "Cargo.lock"))
    xrun.write(os.path.join(d, "src", "main.rs"), ACC_REPLAY_MAIN.format(decl=decl_text))
    shutil.copy(os.path.join(xrun.VERIF, "spec", "spec.rs"), os.path.join(d, "src", "spec.rs"))
    rc, out = xrun.sh(["cargo", "build", "--offline", "-q"], cwd=d, env={"CARGO_TARGET_DIR": os.path.join(xrun.WORK, "target-replay")}, timeout=900)
    shutil.rmtree(d, ignore_errors=True)
    out = "\n".join(l for l in out.splitlines() if "WARNING conda" not in l)
    return rc == 0, out[-2500:]
