"""property id -> check function.  Each function fills an Outcome and returns the exit code."""
from . import driver, corpus, xrun, standins
from .driver import Outcome, finish, run_x

KANI_CMD = ("cargo kani -Z function-contracts -Z stubbing -Z unstable-options --export-json (proof_for_contract / stub_verified "
            "harnesses on the annotated dump of the real expansion)")


def x_only(prop, level="proof", explanation=None):
    def f(out: Outcome):
        from . import gen
        progs = corpus.all_programs(out.tier, out.seed)
        run_x(out, progs, prop)
        if prop in ("C06", "C11"):
            gen.add_obligations(out, prop)
        if prop == "C11":
            standins.c11_above_top(out)
        from . import meta, pt
        meta.add_obligations(out, prop)
        if prop in ("C01", "C02", "C03", "C04", "C05", "C16"):
            pt.add_obligations(out, prop)
        return finish(out, level, KANI_CMD, explanation)
    return f


CHECKS = {p: x_only(p) for p in ("C01", "C02", "C03", "C04", "C05", "C06", "C07", "C08", "C11", "C12", "C13", "C16")}
CHECKS["C09"] = standins.check_c09
CHECKS["C10"] = standins.check_c10
CHECKS["C14"] = standins.check_c14
CHECKS["C17"] = standins.check_c17
CHECKS["C15"] = standins.check_c15
CHECKS["C19"] = standins.check_c19
