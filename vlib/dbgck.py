"""C19 stand-in for what the Kani proof does not reach ({:#?} through core::fmt's PadAdapter, wide layouts):
the real macro output is EXECUTED natively for every raw value of small bases (exhaustive) or a seeded sample
(wide bases) and both `{:?}` and `{:#?}` are compared with the independent formatter of spec/dbgspec.rs.
Labelled bounded/exhaustive-by-execution; never counted as proved."""
import os, shutil, random
from .model import *
from . import xrun, replay as RP, contracts as C

MAIN = """#![allow(dead_code, unused_imports, deprecated, non_camel_case_types, unused_parens, unused_variables, unreachable_patterns)]
use arbitrary_int::*;
use bitbybit::{{bitenum, bitfield}};
mod spec;
use spec::*;
mod dbgspec;
use dbgspec::*;

{decls}

{helpers}

fn text(s: &Sink) -> String {{ String::from_utf8_lossy(&s.buf[..s.len]).to_string() }}

fn main() {{
    let mut bad = 0u64;
{body}
    std::process::exit(if bad > 0 {{ 1 }} else {{ 0 }});
}}
"""


def gen(progs, seed, only=None):
    rnd = random.Random(seed)
    decls, helpers, body = [], [], []
    plan = []
    for p in progs:
        if not any(s.debug for s in p.structs):
            continue
        decls.append(p.decl_text())
        for s in p.structs:
            if s.debug:
                helpers.append(C.debug_spec_fn(s))
        inner = {f.ty.ref.name for s in p.structs for f in s.fields if f.ty.kind == "nested"}
        for s in p.structs:
            if not s.debug or s.name in inner:
                continue
            if only and s.name != only:
                continue
            exhaustive = s.base_bits <= 16
            if exhaustive:
                loop = f"for raw in 0u128..(1u128 << {s.base_bits})"
                n = 1 << s.base_bits
            else:
                full = (1 << s.base_bits) - 1
                vals = [0, full, int("AA" * 16, 16) & full, int("55" * 16, 16) & full] + [rnd.getrandbits(s.base_bits) for _ in range(2000)]
                # boundary raw values: single bits, low/high masks around every native width, and per field: only that field
                # at its extreme values (min/max of the signed reading, all ones) with the rest clear / set
                for k in sorted({7, 8, 15, 16, 31, 32, 62, 63, 64, 65, 95, 96, 126, 127, s.base_bits - 1}):
                    if 0 <= k < s.base_bits:
                        vals += [1 << k, (1 << k) - 1, full ^ ((1 << k) - 1), full ^ (1 << k), (1 << k) | 1]
                for f in s.fields:
                    for i in range(min(f.count, 3)):
                        m = f.mask(i)
                        bits_ = [b for b in range(s.base_bits) if (m >> b) & 1]
                        for pat in (m, 0):
                            vals += [pat, full ^ m | pat]
                        # value with only the field's top value bit set / clear (sign boundary), placed through the bit list in
                        # ascending storage order (good enough as a boundary pattern for any declaration order)
                        for fr in f.ranges[-1:]:
                            topbit = 1 << (fr[0] + fr[1] - 1 + i * f.stride)
                            vals += [topbit, m ^ topbit, full ^ topbit]
                vals = [v & full for v in vals]
                loop = "for raw in [" + ", ".join(f"{v}u128" for v in vals) + "]"
                n = len(vals)
            body.append(f"""    {{ let mut n = 0u64; let mut first = true;
      {loop} {{
        let v = {s.make('raw')};
        for pretty in [false, true] {{
            let got = if pretty {{ format!("{{:#?}}", v) }} else {{ format!("{{:?}}", v) }};
            let mut e = Sink::new(); exp_{s.name}(raw, pretty, 0, &mut e);
            n += 1;
            if e.overflow {{ println!("ORACLE-OVERFLOW {s.name}"); std::process::exit(3); }}
            if got != text(&e) {{ bad += 1; if first {{ first = false;
                println!("MISMATCH {s.name} raw={{:#x}} pretty={{}}\\n--- real Debug output:\\n{{}}\\n--- required text:\\n{{}}", raw, pretty, got, text(&e)); }} }}
        }}
      }}
      println!("CHECKED {s.name} {{}} {{}}", n, {str(exhaustive).lower()}); }}""")
            plan.append((p, s, n * 2, exhaustive))
    return MAIN.format(decls="\n".join(decls), helpers="\n".join(helpers), body="\n".join(body)), plan


def run(work, progs, seed, only=None):
    src, plan = gen(progs, seed, only)
    d = os.path.join(work, "dbgnative")
    shutil.rmtree(d, ignore_errors=True)
    xrun.write(os.path.join(d, "Cargo.toml"), RP.REPLAY_CARGO.format(repo=xrun.REPO).replace('name = "vreplay"', 'name = "vdbg"'))
    xrun.write(os.path.join(d, ".cargo", "config.toml"), "[net]\noffline = true\n")
    shutil.copy(os.path.join(xrun.REPO, "Cargo.lock"), os.path.join(d, "Cargo.lock"))
    xrun.write(os.path.join(d, "src", "main.rs"), src)
    shutil.copy(os.path.join(xrun.VERIF, "spec", "spec.rs"), os.path.join(d, "src", "spec.rs"))
    # the oracle's fixed sink is sized for the Kani proofs (192 bytes); the native run has structs with up to 48 fields and pretty
    # output, so it gets a large sink -- an oracle overflow is a defect of this machinery (exit 2), never a mismatch
    spec_txt = open(os.path.join(xrun.VERIF, "spec", "dbgspec.rs")).read()
    assert "pub const SINK: usize = 192;" in spec_txt
    xrun.write(os.path.join(d, "src", "dbgspec.rs"), spec_txt.replace("pub const SINK: usize = 192;", "pub const SINK: usize = 16384;"))
    rc, out = xrun.sh(["cargo", "run", "--offline", "-q", "--release"], cwd=d, env={"CARGO_TARGET_DIR": os.path.join(xrun.WORK, "target-replay")}, timeout=3000)
    out = "\n".join(l for l in out.splitlines() if "WARNING conda" not in l)
    checked = {}
    for l in out.splitlines():
        if l.startswith("CHECKED "):
            _, name, n, ex = l.split()
            checked[name] = (int(n), ex == "true")
    mism = {}
    cur = None
    for l in out.split("MISMATCH ")[1:]:
        name = l.split()[0]
        mism[name] = "MISMATCH " + l[:900]
    if "ORACLE-OVERFLOW" in out:
        raise xrun.Infra("the oracle's text sink overflowed in the native Debug enumeration (machinery defect):\n" + out[-500:])
    if not checked:
        raise xrun.Infra("native Debug enumeration did not run:\n" + out[-2000:])
    return plan, checked, mism, src
