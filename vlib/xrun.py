"""Unit X: expansion contracts.  dump real macro output -> annotate -> Kani -> verdicts."""
import json, os, re, shutil, subprocess, sys, time, hashlib
from . import contracts as C
from .model import *

VERIF = os.path.dirname(os.path.dirname(os.path.abspath(__file__)))
REPO = os.environ.get("VERIF_REPO", "/repo")
WORK = os.environ.get("VERIF_WORK") or os.path.join(VERIF, ".work")
ANNOTATOR = os.path.join(VERIF, "annotator", "target", "debug", "annotator")
NCPU = int(os.environ.get("VERIF_JOBS", "16"))

CRATE_ALLOW = ("#![allow(arithmetic_overflow, unconditional_panic, unused_parens, deprecated, dead_code, unused_imports, "
               "unused_variables, unused_mut, non_camel_case_types, non_snake_case, non_upper_case_globals, unreachable_patterns, "
               "unused_comparisons, clippy::all, overflowing_literals, unreachable_code, unused_braces, unused_must_use)]\n")


class Infra(Exception):
    """infrastructure problem: exit 2, never a violation"""


def sh(cmd, cwd=None, env=None, timeout=None, capture=True):
    e = dict(os.environ)
    e["CARGO_NET_OFFLINE"] = "true"
    if env:
        e.update(env)
    r = subprocess.run(cmd, cwd=cwd, env=e, timeout=timeout, stdout=subprocess.PIPE if capture else None,
                       stderr=subprocess.STDOUT if capture else None, text=True)
    return r.returncode, (r.stdout or "")


def write(path, text):
    os.makedirs(os.path.dirname(path), exist_ok=True)
    with open(path, "w") as f:
        f.write(text)


def ensure_annotator():
    if not os.path.exists(ANNOTATOR):
        rc, out = sh(["cargo", "build", "--offline"], cwd=os.path.join(VERIF, "annotator"))
        if rc != 0:
            raise Infra("annotator build failed:\n" + out[-3000:])


CORPUS_CARGO = """[package]
name = "{name}"
version = "0.1.0"
edition = "2021"

[dependencies]
bitbybit = {{ path = "{repo}/bitbybit"{features} }}
arbitrary-int = "1.3.0"

[features]
test123 = []

[workspace]

[lints.rust]
unexpected_cfgs = "allow"
"""


def corpus_crate(dirpath, name, programs, hooks=True, extra_mod_text=None, lib_prefix=""):
    """writes a crate declaring every program with the REAL macro from REPO's working tree.
    returns {pid: (first_line, last_line)} of the module in src/lib.rs"""
    feats = ', features = ["verif_hooks"]' if hooks else ""
    write(os.path.join(dirpath, "Cargo.toml"), CORPUS_CARGO.format(name=name, repo=REPO, features=feats))
    write(os.path.join(dirpath, ".cargo", "config.toml"), "[net]\noffline = true\n")
    shutil.copy(os.path.join(REPO, "Cargo.lock"), os.path.join(dirpath, "Cargo.lock"))
    lines = ["#![allow(dead_code, unused_imports, deprecated, non_camel_case_types, unused_parens, clippy::all)]"]
    if lib_prefix:
        lines += lib_prefix.split("\n")
    spans = {}
    for p in programs:
        start = len(lines) + 1
        lines.append(f"pub mod {p.mod} {{")
        lines.append("    use arbitrary_int::*;")
        lines.append("    use bitbybit::{bitenum, bitfield};")
        lines += p.decl_text().split("\n")
        if extra_mod_text and p.pid in extra_mod_text:
            lines += extra_mod_text[p.pid].split("\n")
        lines.append("}")
        spans[p.pid] = (start, len(lines))
    write(os.path.join(dirpath, "src", "lib.rs"), "\n".join(lines) + "\n")
    return spans


def cargo_check_json(dirpath, target_dir, env=None, cmd="check"):
    e = {"CARGO_TARGET_DIR": target_dir}
    if env:
        e.update(env)
    rc, out = sh(["cargo", cmd, "--offline", "--message-format=json", "-q"], cwd=dirpath, env=e)
    errors = []
    other = []
    for line in out.splitlines():
        line = line.strip()
        if not line.startswith("{"):
            if line and "WARNING conda" not in line:
                other.append(line)
            continue
        try:
            m = json.loads(line)
        except Exception:
            continue
        if m.get("reason") == "compiler-message" and m["message"].get("level") in ("error", "error: internal compiler error"):
            msg = m["message"]
            ln = None
            for sp in msg.get("spans", []):
                if sp.get("is_primary"):
                    # walk out of macro expansions to the user-visible line in src/lib.rs
                    x = sp
                    while x.get("expansion") and x["expansion"].get("span"):
                        x = x["expansion"]["span"]
                    if x.get("file_name", "").endswith("src/lib.rs"):
                        ln = x["line_start"]
                    break
            errors.append({"line": ln, "message": msg.get("message", ""), "rendered": (msg.get("rendered") or "")[:1500],
                           "code": (msg.get("code") or {}).get("code") if msg.get("code") else None})
    return rc, errors, other


def dump_expansions(work, programs, tag="corpus"):
    """compile the corpus with the hooked macro; returns ({type name: dump path}, {pid: [errors]})"""
    cdir = os.path.join(work, tag)
    ddir = os.path.join(work, tag + "-dump")
    shutil.rmtree(cdir, ignore_errors=True)
    shutil.rmtree(ddir, ignore_errors=True)
    os.makedirs(ddir)
    spans = corpus_crate(cdir, "vx_" + tag.replace("-", "_"), programs, hooks=True)
    rc, errors, other = cargo_check_json(cdir, os.path.join(WORK, "target-corpus"), env={"BITBYBIT_VERIF_DUMP_DIR": ddir})
    per_pid = {}
    unattributed = []
    for er in errors:
        pid = None
        if er["line"] is not None:
            for k, (a, b) in spans.items():
                if a <= er["line"] <= b:
                    pid = k
        if pid is None:
            unattributed.append(er)
        else:
            per_pid.setdefault(pid, []).append(er)
    if rc != 0 and not errors:
        raise Infra("corpus crate failed to build without attributable diagnostics:\n" + "\n".join(other[-40:]))
    if unattributed and not per_pid:
        raise Infra("corpus crate errors not attributable to a declaration:\n" +
                    "\n".join(e["rendered"] for e in unattributed[:5]))
    dumps = {}
    for fn in sorted(os.listdir(ddir)):
        m = re.match(r"\d+_(bitfield|bitenum)_(.+)\.rs$", fn)
        if m:
            dumps[m.group(2)] = os.path.join(ddir, fn)
    return dumps, per_pid


def annotate(work, programs, dumps, harness_sel=None):
    """returns {type name: (annotated text, inventory)}"""
    ensure_annotator()
    adir = os.path.join(work, "annotated")
    shutil.rmtree(adir, ignore_errors=True)
    os.makedirs(adir)
    job = []
    # first pass without contracts to learn the raw field names, then bind and annotate
    for p in programs:
        cs = C.program_contracts(p, harness_sel.get(p.pid, []) if harness_sel is not None else None)
        for tname, recs in cs.items():
            if tname not in dumps:
                continue
            job.append({"dump": dumps[tname], "contracts": recs, "out": os.path.join(adir, tname + ".rs"),
                        "inventory": os.path.join(adir, tname + ".json")})
    write(os.path.join(adir, "job.json"), json.dumps(job))
    rc, out = sh([ANNOTATOR, os.path.join(adir, "job.json")])
    if rc != 0:
        raise Infra("annotator failed:\n" + out[-3000:])
    res = {}
    for j in job:
        tname = os.path.basename(j["out"])[:-3]
        res[tname] = (open(j["out"]).read(), json.load(open(j["inventory"])))
    return res


def bind_rawnames(programs, dumps):
    """learn the name of the storage field from the parsed expansion (contracts refer to roles, not names)"""
    ensure_annotator()
    tmp = os.path.join(WORK, "bind-%d" % os.getpid())
    os.makedirs(tmp, exist_ok=True)
    job = []
    for p in programs:
        for s in p.structs:
            if s.name in dumps:
                job.append({"dump": dumps[s.name], "contracts": [], "out": os.path.join(tmp, s.name + ".rs"),
                            "inventory": os.path.join(tmp, s.name + ".json")})
    write(os.path.join(tmp, "job.json"), json.dumps(job))
    rc, out = sh([ANNOTATOR, os.path.join(tmp, "job.json")])
    if rc != 0:
        shutil.rmtree(tmp, ignore_errors=True)
        raise Infra("annotator failed:\n" + out[-3000:])
    for p in programs:
        for s in p.structs:
            # does the in-place setter delegate to the functional one (`*self = self.with_x(..)`)?  Then its proof uses with_x's VERIFIED
            # CONTRACT as a stub (modular): a contract-annotated callee inside a `modifies` proof otherwise does not finish (DESIGN 11.2)
            try:
                dtxt = open(dumps[s.name]).read() if s.name in dumps and os.path.exists(str(dumps[s.name])) else str(dumps.get(s.name, ""))
            except Exception:
                dtxt = ""
            for f in s.fields:
                fb = f.base
                m = re.search(r"fn\s+set_" + re.escape(fb) + r"\s*\(", dtxt)
                f.set_calls_with = False
                if m:
                    body = dtxt[m.end():m.end() + 1500]
                    nxt = re.search(r"\bfn\s", body)
                    body = body[:nxt.start()] if nxt else body
                    f.set_calls_with = bool(re.search(r"self\s*\.\s*with_" + re.escape(fb) + r"\s*\(", body))
            ip = os.path.join(tmp, s.name + ".json")
            if os.path.exists(ip):
                inv = json.load(open(ip))
                r = inv["raw_of"].get(s.name)
                if r:
                    s.rawname = r
                # the type-state builder struct is whatever builder() returns (its name is not part of the property)
                for it in inv["items"]:
                    if it["kind"] == "impl" and it["self_ty"] == s.name and it.get("trait") is None:
                        for m in it["items"]:
                            if m["kind"] == "fn" and m["name"] == "builder":
                                mm = re.match(r"(\w+)<", m["ret"])
                                if mm:
                                    s.partial = mm.group(1)
    shutil.rmtree(tmp, ignore_errors=True)


KANI_CARGO = """[package]
name = "{name}"
version = "0.1.0"
edition = "2021"

[dependencies]
arbitrary-int = "1.3.0"

[features]
test123 = []

[workspace]

[lints.rust]
unexpected_cfgs = "allow"
"""


def inventory_fns(inv):
    """set of (canonical impl type, fn name) present in an expansion inventory"""
    out = set()
    for it in inv["items"]:
        if it["kind"] == "impl" and it.get("trait") is None:
            for m in it["items"]:
                if m["kind"] == "fn":
                    out.add((it["self_ty"], m["name"]))
    return out


def build_kani_crates(work, programs, annotated, harness_sel, nshards, plain=None):
    """harness_sel: {pid: [H]}.  returns list of (crate dir, [harness names])"""
    spec = open(os.path.join(VERIF, "spec", "spec.rs")).read()
    progs = [p for p in programs if harness_sel.get(p.pid)]
    # balance shards by harness count
    shards = [[] for _ in range(max(1, nshards))]
    loads = [0] * len(shards)
    for p in sorted(progs, key=lambda p: -len(harness_sel[p.pid])):
        k = loads.index(min(loads))
        shards[k].append(p)
        loads[k] += len(harness_sel[p.pid])
    out = []
    for k, ps in enumerate(shards):
        if not ps:
            continue
        name = f"vk{k}"
        cdir = os.path.join(work, name)
        shutil.rmtree(cdir, ignore_errors=True)
        write(os.path.join(cdir, "Cargo.toml"), KANI_CARGO.format(name=name))
        write(os.path.join(cdir, ".cargo", "config.toml"), "[net]\noffline = true\n")
        shutil.copy(os.path.join(REPO, "Cargo.lock"), os.path.join(cdir, "Cargo.lock"))
        write(os.path.join(cdir, "src", "spec.rs"), spec)
        body = [CRATE_ALLOW, "pub mod spec;\n"]
        names = []
        for p in ps:
            have_types = None
            if plain:
                have_types = {it["name"] for t in plain.values() for it in t[1]["items"] if it["kind"] in ("struct", "enum")}
            top, proofs = C.support_items(p, have_types)
            body.append(f"pub mod {p.mod} {{\n    use super::spec::*;\n    use arbitrary_int::*;\n")
            for s in p.structs:
                body.append(s.const_items())
            body.append(top)
            for t in [e.name for e in p.enums] + [s.name for s in p.structs]:
                if t in annotated:
                    body.append(annotated[t][0] + "\n")
            body.append("    #[cfg(kani)]\n    mod proofs {\n    use super::*;\n")
            body.append(proofs)
            contract_hs = [h for h in harness_sel[p.pid] if h.expect != "panic"]
            panic_hs = [h for h in harness_sel[p.pid] if h.expect == "panic"]
            for h in contract_hs:
                body.append(h.text())
                names.append(h.name)
            body.append("    }\n}\n")
            if panic_hs:
                # Kani asserts the requires-clause of a contract-carrying function at every call from a plain harness, so an
                # out-of-range index would "panic" on the contract instead of on the code: the must-panic obligations run on
                # an UNANNOTATED copy of the same expansion
                body.append(f"pub mod {p.mod}_plain {{\n    use super::spec::*;\n    use arbitrary_int::*;\n")
                for s in p.structs:
                    body.append(s.const_items())
                body.append(top)
                for t in [e.name for e in p.enums] + [s.name for s in p.structs]:
                    if plain and t in plain:
                        body.append(plain[t][0] + "\n")
                body.append("    #[cfg(kani)]\n    mod proofs {\n    use super::*;\n")
                body.append(proofs)
                for h in panic_hs:
                    body.append(h.text())
                    names.append(h.name)
                body.append("    }\n}\n")
        write(os.path.join(cdir, "src", "lib.rs"), "".join(body))
        out.append((cdir, names))
    return out


def run_kani(crates, jobs_total=NCPU, timeout_s=600, extra_args=()):
    """runs cargo kani on every shard crate in parallel; returns {harness short name: result dict}"""
    procs = []
    per = max(1, jobs_total // max(1, len(crates)))
    for cdir, names in crates:
        outj = os.path.join(cdir, "out.json")
        cmd = ["cargo", "kani", "-Z", "function-contracts", "-Z", "stubbing", "-Z", "unstable-options",
               "-j", str(per), "--output-format", "terse", "--export-json", outj,
               "--harness-timeout", f"{timeout_s}s"] + list(extra_args)
        env = dict(os.environ)
        env["CARGO_NET_OFFLINE"] = "true"
        log = open(os.path.join(cdir, "kani.log"), "w")
        procs.append((cdir, names, outj, subprocess.Popen(cmd, cwd=cdir, env=env, stdout=log, stderr=subprocess.STDOUT), log))
    results = {}
    meta = {"solver_s": 0.0, "vccs": 0, "kani_version": None, "cbmc": None, "crates": len(crates)}
    for cdir, names, outj, pr, log in procs:
        pr.wait()
        log.close()
        if not os.path.exists(outj):
            tail = open(os.path.join(cdir, "kani.log")).read()[-6000:]
            raise Infra(f"cargo kani produced no result file in {cdir} (compile error in the harness crate?):\n{tail}")
        d = json.load(open(outj))
        meta["kani_version"] = d["metadata"]["kani_version"]
        meta["cbmc"] = d["tools"]["cbmc"]
        gotos = {h["pretty_name"]: h["goto_file"] for h in d["harness_metadata"]}
        stats = {c["harness_id"]: c.get("cbmc_stats") or {} for c in d.get("cbmc", [])}
        for r in d["verification_results"]["results"]:
            hid = r["harness_id"]
            short = hid.split("::")[-1]
            st = stats.get(hid, {})
            meta["solver_s"] += st.get("runtime_solver_s", 0.0) or 0.0
            meta["vccs"] += st.get("vccs_generated", 0) or 0
            results[short] = {"status": r["status"], "checks": r["checks"], "goto": gotos.get(hid), "id": hid,
                              "duration_ms": r.get("duration_ms"), "crate": cdir,
                              "vccs": st.get("vccs_generated", 0), "solver_s": st.get("runtime_solver_s", 0.0)}
        missing = [n for n in names if n not in results]
        if missing:
            tail = open(os.path.join(cdir, "kani.log")).read()[-3000:]
            raise Infra(f"{len(missing)} planned harnesses did not run in {cdir} (e.g. {missing[:3]}):\n{tail}")
        os.remove(outj)
    return results, meta


OVERFLOW_RE = re.compile(r"attempt to |overflow|division by zero|divide by zero")


def classify_check(c):
    """ens | safe_overflow | safe_panic | cover | infra | other   for one Kani check record"""
    d = c.get("description", "")
    cat = c.get("category", "")
    fn = c.get("function", "")
    if cat == "cover":
        return "cover"
    if cat in ("unwind",):
        return "unwind"
    if cat == "assertion" and d.lstrip().startswith("|"):
        body = d.split("|", 2)[-1]
        # a postcondition that is only the representation invariant (no value equation): totality of every later operation rests on it
        if "fits(" in body and "==" not in body.replace("fits(", ""):
            return "ens_inv"
        return "ens"
    if cat in ("arithmetic_overflow", "division-by-zero", "bit_count") or (cat == "assertion" and OVERFLOW_RE.search(d)):
        return "safe_overflow"
    if cat == "assertion" and fn.startswith("proofs::") or "::proofs::" in fn:
        return "lemma"
    if cat == "assertion":
        return "safe_panic"
    if cat in ("assigns", "frees"):
        return "frame"
    if cat in ("precondition_instance",):
        return "pre"
    return "other"


def judge(h, r):
    """returns (ok: bool, failures: [check], vacuous: bool) for harness h with Kani result r"""
    failed = [c for c in r["checks"] if c["status"] in ("Failure", "Failed", "FAILURE")]
    undet = [c for c in r["checks"] if c["status"] in ("Undetermined", "UNDETERMINED")]
    covers = [c for c in r["checks"] if c.get("category") == "cover"]
    if h.expect == "panic":
        returned = [c for c in covers if "returned" in c.get("description", "")]
        sat = [c for c in returned if c["status"] in ("Satisfied", "SATISFIED")]
        bad = []
        explicit = [c for c in failed if classify_check(c) == "safe_panic"]
        nonexplicit = [c for c in failed if classify_check(c) != "safe_panic"]
        if sat:
            bad.append({"description": "an out-of-range index returns instead of panicking", "category": "oob", "function": h.name,
                        "status": "Failure"})
        if not explicit and not sat:
            bad.append({"description": "no explicit panic for an out-of-range index (only profile-dependent overflow panics, or none)",
                        "category": "oob", "function": h.name, "status": "Failure"})
        bad += [dict(c, note="profile-dependent failure on an out-of-range index") for c in nonexplicit]
        return (not bad), bad, False
    vac = not any(c["status"] in ("Satisfied", "SATISFIED") for c in covers)
    ok = r["status"] == "Success" and not failed and not undet
    if undet and not failed:
        return False, [dict(c, undetermined=True) for c in undet], vac
    return ok, failed, vac
