"""Declaration model: enums, bitfield structs, fields.  Everything the contracts need (ranges, masks,
builder oracle, declaration text) is computed here from the declaration table, never from macro output."""
from dataclasses import dataclass, field as dfield
from typing import List, Optional, Tuple

NATIVE = (8, 16, 32, 64, 128)


def storage(n):
    for w in NATIVE:
        if n <= w:
            return w
    raise ValueError(n)


def is_native(n):
    return n in NATIVE


def hexlit(v, ty=None):
    s = hex(v)
    return s + (ty or "")


@dataclass
class Enum:
    name: str
    bits: int
    variants: List[Tuple[str, int]]
    exhaustive: Optional[str] = None  # None | 'true' | 'false' | 'conditional'
    repr: Optional[str] = None
    derives: Tuple[str, ...] = ("Debug", "PartialEq", "Eq")
    legacy_colon: bool = False

    @property
    def is_exhaustive(self):
        return self.exhaustive == "true"

    @property
    def holder(self):
        return f"u{storage(self.bits)}"

    @property
    def raw_ty(self):
        return f"u{self.bits}"

    @property
    def raw_is_native(self):
        return self.bits in (8, 16, 32, 64)

    def decl(self):
        args = [f"u{self.bits}"]
        if self.exhaustive is not None:
            args.append(f"exhaustive {':' if self.legacy_colon else '='} {self.exhaustive}")
        lines = [f"#[bitenum({', '.join(args)})]"]
        if self.derives:
            lines.append(f"#[derive({', '.join(self.derives)})]")
        if self.repr:
            lines.append(f"#[repr({self.repr})]")
        lines.append(f"pub enum {self.name} {{")
        for v in self.variants:
            vn, vv = v[0], v[1]
            cfg = v[2] if len(v) > 2 else None
            if cfg == "off":
                lines.append('    #[cfg(feature = "test123")]')
            elif cfg == "on":
                lines.append('    #[cfg(not(feature = "test123"))]')
            lines.append(f"    {vn} = {hexlit(vv)},")
        lines.append("}")
        return "\n".join(lines)

    def active(self):
        """variants present after cfg evaluation (the corpus crates never enable feature test123)"""
        return [(v[0], v[1]) for v in self.variants if (v[2] if len(v) > 2 else None) != "off"]

    # spec helpers emitted next to the annotated expansion
    def spec_fns(self):
        arms = ", ".join(f"{self.name}::{vn} => {hexlit(vv)}" for vn, vv in self.active())
        conds = " || ".join(f"x == {hexlit(vv)}" for _, vv in self.active()) or "false"
        return (
            f"pub const fn discr_{self.name}(e: {self.name}) -> u128 {{ match e {{ {arms} }} }}\n"
            f"pub const fn is_discr_{self.name}(x: u128) -> bool {{ {conds} }}\n"
        )

    def from_discr_fn(self):
        arms = ", ".join(f"{hexlit(vv)} => {self.name}::{vn}" for vn, vv in self.active())
        return (f"pub fn from_discr_{self.name}(x: u128) -> {self.name} {{ match x {{ {arms}, "
                f"_ => panic!(\"replay: not a discriminant\") }} }}\n")

    def arbitrary_impl(self):
        act = self.active()
        n = len(act)
        idx_ty = "u8" if n <= 256 else "u16"
        arms = []
        for i, (vn, _) in enumerate(act):
            pat = "_" if i == n - 1 else str(i)
            arms.append(f"{pat} => {self.name}::{vn}")
        return (f"impl kani::Arbitrary for {self.name} {{ fn any() -> Self {{ match kani::any::<{idx_ty}>() {{ "
                + ", ".join(arms) + " } } }\n")


@dataclass
class FT:
    kind: str  # bool | uint | native | signed | enum | optenum | nested
    width: int
    ref: object = None  # Enum or Struct

    def rust(self):
        k = self.kind
        if k == "bool":
            return "bool"
        if k in ("uint", "native"):
            return f"u{self.width}"
        if k == "signed":
            return f"i{self.width}"
        if k == "enum":
            return self.ref.name
        if k == "optenum":
            return f"Option<{self.ref.name}>"
        if k == "nested":
            return self.ref.name
        raise ValueError(k)

    def getter_ty(self):
        if self.kind == "optenum":
            return f"Result<{self.ref.name}, u{storage(self.width)}>"
        return self.rust()

    def setter_ty(self):
        if self.kind == "optenum":
            return self.ref.name
        return self.rust()

    def view(self, x, pub=False):
        """u128 view of an expression of the setter type (pub: through the public API only)"""
        k = self.kind
        if k == "nested" and pub:
            return f"({x}.raw_value(){'.value()' if self.ref.arbitrary_base else ''} as u128)"
        if k in ("bool", "native"):
            return f"({x} as u128)"
        if k == "uint":
            return f"({x}.value() as u128)"
        if k == "signed":
            return f"(({x} as u{self.width}) as u128)"
        if k in ("enum", "optenum"):
            return f"discr_{self.ref.name}({x})"
        if k == "nested":
            return f"({x}.{self.ref.rawname} as u128)"
        raise ValueError(k)

    def result_pred(self, r, bits, pub=False):
        """predicate: the getter result `r` (a reference) presents `bits` (u128 expr) as the declared type"""
        k = self.kind
        if k == "nested" and pub:
            return f"({r}.raw_value(){'.value()' if self.ref.arbitrary_base else ''} as u128) == {bits}"
        if k in ("bool", "native"):
            return f"((*{r}) as u128) == {bits}"
        if k == "uint":
            return f"({r}.value() as u128) == {bits}"
        if k == "signed":
            return f"(((*{r}) as u{self.width}) as u128) == {bits}"
        if k == "enum":
            return f"discr_{self.ref.name}(*{r}) == {bits}"
        if k == "optenum":
            e = self.ref.name
            return (f"{{ let bits_ = {bits}; match {r} {{ Ok(v_) => discr_{e}(*v_) == bits_, "
                    f"Err(e_) => ((*e_) as u128) == bits_ && !is_discr_{e}(bits_) }} }}")
        if k == "nested":
            return f"({r}.{self.ref.rawname} as u128) == {bits}"
        raise ValueError(k)

    def any_value(self, var):
        """statements binding `var` (setter type) to an arbitrary valid value and `<var>_v: u128` to its view"""
        k = self.kind
        if k in ("bool", "native", "signed"):
            s = f"let {var}: {self.rust()} = kani::any();"
        elif k == "uint":
            h = f"u{storage(self.width)}"
            s = (f"let {var}_h: {h} = kani::any(); kani::assume(({var}_h as u128) < (1u128 << {self.width})); "
                 f"let {var} = u{self.width}::new({var}_h);")
        elif k in ("enum", "optenum"):
            s = f"let {var}: {self.ref.name} = kani::any();"
        elif k == "nested":
            s = f"let {var}: {self.ref.name} = kani::any();"
        else:
            raise ValueError(k)
        return s + f" let {var}_v: u128 = {self.view(var)};"


def from_view(ty, v):
    """expression of the setter type whose u128 view is the expression `v` (public API only; used by replays)"""
    k = ty.kind
    if k == "bool":
        return f"(({v}) != 0)"
    if k == "uint":
        return f"u{ty.width}::new(({v}) as u{storage(ty.width)})"
    if k == "native":
        return f"(({v}) as u{ty.width})"
    if k == "signed":
        return f"((({v}) as u{ty.width}) as i{ty.width})"
    if k in ("enum", "optenum"):
        return f"from_discr_{ty.ref.name}({v})"
    if k == "nested":
        return ty.ref.make(v)
    raise ValueError(k)


def T_bool():
    return FT("bool", 1)


def T_u(n):
    return FT("native" if is_native(n) else "uint", n)


def T_i(n):
    return FT("signed", n)


def T_enum(e):
    return FT("enum" if e.is_exhaustive else "optenum", e.bits, e)


def T_nested(s):
    return FT("nested", s.base_bits, s)


@dataclass
class Field:
    name: str
    ty: FT
    ranges: List[Tuple[int, int]]  # (lo, n) in declaration order
    array: Optional[Tuple[int, Optional[int]]] = None  # (count, stride or None = omitted)
    access: str = "rw"  # rw | r | w | ''
    doc: Optional[str] = None
    qualified: bool = False  # spell an arbitrary-int field type as `arbitrary_int::uN`
    style: str = "std"  # attribute spelling: std | stride_first | access_first | stride_mid, optional suffix _colon (legacy `stride: n`)

    @property
    def base(self):
        """field name without the raw-identifier prefix: what with_/set_ and the builder step are named after"""
        return self.name[2:] if self.name.startswith("r#") else self.name

    @property
    def readable(self):
        return "r" in self.access

    @property
    def writable(self):
        return "w" in self.access

    @property
    def nbits(self):
        return sum(n for _, n in self.ranges)

    @property
    def stride(self):
        if self.array is None:
            return 0
        return self.array[1] if self.array[1] is not None else self.nbits

    @property
    def count(self):
        return self.array[0] if self.array else 1

    @property
    def contiguous(self):
        return len(self.ranges) == 1

    def ranges_lit(self):
        return "&[" + ", ".join(f"({lo}, {n})" for lo, n in self.ranges) + "]"

    def mask(self, idx=None):
        m = 0
        idxs = range(self.count) if idx is None else [idx]
        for i in idxs:
            for lo, n in self.ranges:
                m |= ((1 << n) - 1) << (lo + i * self.stride)
        return m

    def self_overlap(self):
        seen = 0
        for i in range(self.count):
            for lo, n in self.ranges:
                b = ((1 << n) - 1) << (lo + i * self.stride)
                if b & seen:
                    return True
                seen |= b
        return False

    def attr(self):
        zp = "zpad" in getattr(self, "style", "std")
        num = (lambda v: f"{v:03d}") if zp else (lambda v: f"{v}")

        def one(lo, n, in_list):
            if n == 1 and (in_list or self.ty.kind == "bool" or getattr(self, "single_bit_syntax", True)):
                return num(lo)
            return f"{num(lo)}..={num(lo + n - 1)}"
        if len(self.ranges) == 1 and not getattr(self, "force_list", False):
            lo, n = self.ranges[0]
            if n == 1 and "range1" in getattr(self, "style", "std"):
                head, body = "bits", f"{num(lo)}..={num(lo)}"      # a one-bit-wide inclusive range is a legal spelling of a single bit
            elif n == 1:
                head, body = "bit", num(lo)
            else:
                head, body = "bits", f"{num(lo)}..={num(lo + n - 1)}"
        else:
            head = "bits"
            body = "[" + ", ".join(one(lo, n, True) for lo, n in self.ranges) + "]"
        style = getattr(self, "style", "std")
        acc = [self.access] if self.access else []
        stride = []
        if self.array and self.array[1] is not None:
            stride = [f"stride {':' if 'colon' in style else '='} {num(self.array[1])}"]
        if style.startswith("stride_first"):
            parts = stride + [body] + acc
        elif style.startswith("access_first"):
            parts = acc + [body] + stride
        elif style.startswith("stride_mid"):
            parts = [body] + stride + acc
        else:
            parts = [body] + acc + stride
        return f"#[{head}({', '.join(parts)})]"

    def decl(self):
        ty = self.ty.rust()
        if getattr(self, "qualified", False) and self.ty.kind == "uint":
            ty = "arbitrary_int::" + ty
        if self.array:
            ty = f"[{ty}; {self.array[0]}]"
        doc = f"    /// {self.doc}\n" if self.doc else ""
        return f"{doc}    {self.attr()}\n    {self.name}: {ty},"


@dataclass
class Default:
    value: int
    form: str = "="  # '=' or ':'
    const_name: Optional[str] = None
    text: Optional[str] = None  # literal spelling (binary, underscores, decimal, suffix); must denote `value`


@dataclass
class Struct:
    name: str
    base_bits: int
    fields: List[Field]
    default: Optional[Default] = None
    debug: bool = False
    rawname: str = "raw_value"  # rebound from the parsed expansion
    partial: Optional[str] = None  # name of the type-state builder struct, rebound from builder()'s return type

    @property
    def pname(self):
        return self.partial or f"Partial{self.name}"
    derives: Tuple[str, ...] = ()
    vis: str = "pub"
    debug_first: bool = False

    @property
    def storage(self):
        return storage(self.base_bits)

    @property
    def arbitrary_base(self):
        return not is_native(self.base_bits)

    @property
    def sty(self):
        return f"u{self.storage}"

    @property
    def base_ty(self):
        return f"u{self.base_bits}"

    def make(self, v):
        """public construction from a u128 expression"""
        if self.arbitrary_base:
            return f"{self.name}::new_with_raw_value({self.base_ty}::new(({v}) as {self.sty}))"
        return f"{self.name}::new_with_raw_value(({v}) as {self.sty})"

    def pubraw(self, x):
        return f"({x}.raw_value(){'.value()' if self.arbitrary_base else ''} as u128)"

    def decl(self):
        args = [self.base_ty]
        if self.debug and self.debug_first:
            args.append("debug")
        if self.default is not None:
            d = self.default
            val = d.const_name if d.const_name else (d.text or hexlit(d.value))
            args.append(f"default {d.form} {val}")
        if self.debug and not self.debug_first:
            args.append("debug")
        lines = [f"#[bitfield({', '.join(args)})]"]
        if self.derives:
            lines.append(f"#[derive({', '.join(self.derives)})]")
        lines.append(f"{self.vis + ' ' if self.vis else ''}struct {self.name} {{")
        for f in self.fields:
            lines.append(f.decl())
        lines.append("}")
        return "\n".join(lines)

    def const_items(self):
        d = self.default
        if d is not None and d.const_name:
            if self.arbitrary_base:
                return f"pub const {d.const_name}: u{self.storage} = {hexlit(d.value)};\n"
            return f"pub const {d.const_name}: {self.base_ty} = {hexlit(d.value)};\n"
        return ""

    # ---- oracles from the property text -------------------------------------------------
    def start_value(self):
        return self.default.value if self.default is not None else 0

    def writable_fields(self):
        return [f for f in self.fields if f.writable]

    def builder_expected(self):
        """C14: builder offered iff no bit is writable through more than one field / element / range and
        (a default is declared or the writable fields cover every bit of the base)."""
        seen = 0
        for f in self.writable_fields():
            if f.self_overlap():
                return False
            m = f.mask()
            if m & seen:
                return False
            seen |= m
        full = (1 << self.base_bits) - 1
        return self.default is not None or seen == full

    def mask_chain(self):
        """[(field, mask_before, mask_after)] in declaration order"""
        out, m = [], 0
        for f in self.writable_fields():
            out.append((f, m, m | f.mask()))
            m |= f.mask()
        return out

    def valid(self):
        """C09 acceptance rule as worded in the property (for well-formed attributes)"""
        for f in self.fields:
            for lo, n in f.ranges:
                if n < 1:
                    return False
            nb = f.nbits
            if f.ty.kind == "bool":
                if nb != 1 or len(f.ranges) != 1:
                    return False
            elif f.ty.width != nb:
                return False
            if f.array is not None:
                k, s = f.array
                if k < 2:
                    return False
                if s is None:
                    if len(f.ranges) != 1:
                        return False
                    s = nb
                if len(f.ranges) == 1 and s < nb:
                    return False
                top = max(lo + n for lo, n in f.ranges) + (k - 1) * s
            else:
                top = max(lo + n for lo, n in f.ranges)
            if top > self.base_bits:
                return False
        return True


@dataclass
class Program:
    """a group of declarations living in one module of the corpus crate"""
    pid: str
    enums: List[Enum] = dfield(default_factory=list)
    structs: List[Struct] = dfield(default_factory=list)
    props: Tuple[str, ...] = ()
    note: str = ""
    decl_override: Optional[str] = None

    @property
    def mod(self):
        return f"d_{self.pid}"

    def decl_text(self, feature_cfg=False):
        if self.decl_override is not None:
            return self.decl_override
        parts = []
        for s in self.structs:
            c = s.const_items()
            if c:
                parts.append(c)
        for e in self.enums:
            parts.append(e.decl())
        for s in self.structs:
            parts.append(s.decl())
        return "\n".join(parts)
