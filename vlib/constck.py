"""CONST: bounded stand-in for C15.  Every generated operation of every corpus declaration initialises a `const`
and is compared with spec.rs by `const _: () = assert!(..)` -- rustc's const evaluator is the deciding step -- and the
same operations are recomputed at run time (inputs behind black_box, debug and release) and compared with the consts."""
import os, shutil, json, random, subprocess
from .model import *
from . import xrun, replay as RP


def sample_raws(s: Struct, rnd):
    full = (1 << s.base_bits) - 1
    a = int("AA" * 16, 16) & full
    vals = [0, full, a, full ^ a, rnd.getrandbits(s.base_bits), 1 << (s.base_bits - 1)]
    out = []
    for v in vals:
        if v not in out:
            out.append(v)
    return out[:5]


def sample_views(ty: FT, rnd):
    if ty.kind in ("enum", "optenum"):
        ds = [v for _, v in ty.ref.active()]
        return list(dict.fromkeys([ds[0], ds[-1]]))
    w = ty.width if ty.kind != "bool" else 1
    full = (1 << w) - 1
    return list(dict.fromkeys([0, full, rnd.getrandbits(w), 1 << (w - 1)]))[:3]


class Gen:
    def __init__(self):
        self.lines = []
        self.ob = {}   # line number -> obligation name

    def add(self, text, ob=None):
        self.lines.append(text)
        if ob:
            self.ob[len(self.lines)] = ob

    @property
    def n(self):
        return len(self.lines)


def u(v):
    return f"{v}u128"


def gen_program(g: Gen, p: Program, rnd, rt: list):
    """appends module text; rt collects run-time comparison statements"""
    g.add(f"pub mod {p.mod} {{")
    g.add("    use arbitrary_int::*; use bitbybit::{bitenum, bitfield}; use crate::spec::*; use std::hint::black_box;")
    for line in p.decl_text().split("\n"):
        g.add(line)
    for e in p.enums:
        for line in e.spec_fns().strip().split("\n"):
            g.add(line)
        g.add(e.from_discr_fn().strip().replace("pub fn", "pub const fn"))
    rts = []
    k = [0]

    def cname():
        k[0] += 1
        return f"C{k[0]}"

    for e in p.enums:
        E = e.name
        for vn, vv in e.active()[:4] + e.active()[-1:]:
            c = cname()
            rv = f"({c} as u128)" if e.raw_is_native else f"({c}.value() as u128)"
            g.add(f"    pub const {c}: u{e.bits} = {E}::{vn}.raw_value(); const _: () = assert!({rv} == {u(vv)});", f"{p.pid}/{E}::raw_value({vn})")
            rvr = "(r_ as u128)" if e.raw_is_native else "(r_.value() as u128)"
            rts.append(f"{{ let r_ = black_box({E}::{vn}).raw_value(); chk({rvr} == {rv}, \"{p.pid}/{E}::raw_value({vn})\"); }}")
        xs = list(dict.fromkeys([0, (1 << e.bits) - 1] + [v for _, v in e.active()[:2]] + [1 % (1 << e.bits)]))
        for x in xs:
            c = cname()
            mk = f"({x}u128 as {e.holder})" if e.raw_is_native else f"u{e.bits}::new({x}u128 as {e.holder})"
            if e.is_exhaustive:
                g.add(f"    pub const {c}: {E} = {E}::new_with_raw_value({mk}); const _: () = assert!(discr_{E}({c}) == {u(x)});", f"{p.pid}/{E}::new_with_raw_value({x})")
                rts.append(f"{{ let r_ = {E}::new_with_raw_value(black_box({mk})); chk(discr_{E}(r_) == discr_{E}({c}), \"{p.pid}/{E}::new_with_raw_value({x})\"); }}")
            else:
                pred = f"match {c} {{ Ok(v_) => discr_{E}(v_) == {u(x)}, Err(e_) => (e_ as u128) == {u(x)} && !is_discr_{E}({u(x)}) }}"
                g.add(f"    pub const {c}: Result<{E}, {e.holder}> = {E}::new_with_raw_value({mk}); const _: () = assert!({pred});", f"{p.pid}/{E}::new_with_raw_value({x})")
                rts.append(f"{{ let r_ = {E}::new_with_raw_value(black_box({mk})); chk(match (r_, {c}) {{ (Ok(a_), Ok(b_)) => discr_{E}(a_) == discr_{E}(b_), (Err(a_), Err(b_)) => a_ == b_, _ => false }}, \"{p.pid}/{E}::new_with_raw_value({x})\"); }}")
    inner = {f.ty.ref.name for s in p.structs for f in s.fields if f.ty.kind == "nested"}
    for s in p.structs:
        S = s.name
        c = cname()
        g.add(f"    pub const {c}: {S} = {S}::ZERO; const _: () = assert!({s.pubraw(c)} == 0);", f"{p.pid}/{S}::ZERO")
        if s.default is not None:
            c = cname()
            g.add(f"    pub const {c}: {S} = {S}::DEFAULT; const _: () = assert!({s.pubraw(c)} == {u(s.default.value)});", f"{p.pid}/{S}::DEFAULT")
        if S in inner:
            continue
        for R in sample_raws(s, rnd):
            a = cname()
            g.add(f"    pub const {a}: {S} = {s.make(u(R))}; const _: () = assert!({s.pubraw(a)} == {u(R)});", f"{p.pid}/{S}::new_with_raw_value+raw_value({R:#x})")
            rts.append(f"{{ let r_ = {s.make(f'black_box({u(R)})')}; chk({s.pubraw('r_')} == {s.pubraw(a)}, \"{p.pid}/{S}::new_with_raw_value+raw_value({R:#x})\"); }}")
            for f in s.fields:
                idxs = [None] if not f.array else list(dict.fromkeys([0, f.count - 1]))
                for i in idxs:
                    sh = 0 if i is None else i * f.stride
                    ia = "" if i is None else f"{i}"
                    if f.readable:
                        c = cname()
                        bits = f"get_spec({u(R)}, {f.ranges_lit()}, {sh})"
                        g.add(f"    pub const {c}: {f.ty.getter_ty()} = {a}.{f.name}({ia}); const _: () = assert!({f.ty.result_pred('(&' + c + ')', bits, pub=True)});",
                              f"{p.pid}/{S}::{f.name}({ia}) @ {R:#x}")
                        if f.ty.kind == "optenum":
                            eq = f"match (r_, {c}) {{ (Ok(a_), Ok(b_)) => discr_{f.ty.ref.name}(a_) == discr_{f.ty.ref.name}(b_), (Err(a_), Err(b_)) => a_ == b_, _ => false }}"
                        else:
                            eq = f"{f.ty.view('r_', pub=True)} == {f.ty.view(c, pub=True)}"
                        rts.append(f"{{ let r_ = black_box({a}).{f.name}({('black_box(' + ia + ')') if ia else ''}); chk({eq}, \"{p.pid}/{S}::{f.name}({ia}) @ {R:#x}\"); }}")
                    if f.writable:
                        for V in sample_views(f.ty, rnd)[:2]:
                            c = cname()
                            val = from_view(f.ty, u(V))
                            args = f"{i}, {val}" if i is not None else val
                            exp = f"put_spec({u(R)}, {f.ranges_lit()}, {sh}, {u(V)})"
                            g.add(f"    pub const {c}: {S} = {a}.with_{f.base}({args}); const _: () = assert!({s.pubraw(c)} == {exp});",
                                  f"{p.pid}/{S}::with_{f.base}({ia + ', ' if ia else ''}{V:#x}) @ {R:#x}")
                            rargs = f"black_box({i}), black_box({val})" if i is not None else f"black_box({val})"
                            rts.append(f"{{ let r_ = black_box({a}).with_{f.base}({rargs}); chk({s.pubraw('r_')} == {s.pubraw(c)}, \"{p.pid}/{S}::with_{f.base} @ {R:#x}\"); }}")
        if s.builder_expected():
            acc = u(s.start_value())
            calls, rcalls = [], []
            for f, m0, m1 in s.mask_chain():
                vs = sample_views(f.ty, rnd)
                if f.array:
                    vals = [vs[i % len(vs)] for i in range(f.count)]
                    for i, V in enumerate(vals):
                        acc = f"put_spec({acc}, {f.ranges_lit()}, {i * f.stride}, {u(V)})"
                    arr = "[" + ", ".join(from_view(f.ty, u(V)) for V in vals) + "]"
                    calls.append(f".with_{f.base}({arr})")
                    rcalls.append(f".with_{f.base}(black_box({arr}))")
                else:
                    V = vs[-1]
                    acc = f"put_spec({acc}, {f.ranges_lit()}, 0, {u(V)})"
                    calls.append(f".with_{f.base}({from_view(f.ty, u(V))})")
                    rcalls.append(f".with_{f.base}(black_box({from_view(f.ty, u(V))}))")
            c = cname()
            g.add(f"    pub const {c}: {S} = {S}::builder(){''.join(calls)}.build(); const _: () = assert!({s.pubraw(c)} == {acc});",
                  f"{p.pid}/{S}::builder()..build()")
            rts.append(f"{{ let r_ = {S}::builder(){''.join(rcalls)}.build(); chk({s.pubraw('r_')} == {s.pubraw(c)}, \"{p.pid}/{S}::builder()..build()\"); }}")
    g.add("    pub fn runtime(chk: &mut dyn FnMut(bool, &'static str)) {")
    for r in rts:
        g.add("        " + r.replace("chk(", "chk(", 1))
    g.add("    }")
    g.add("}")
    rt.append((p.mod, len(rts)))


def build_and_run(work, programs, seed):
    """returns (obligations {name: (ok, detail)}, infra notes)"""
    rnd = random.Random(seed)
    g = Gen()
    g.add("#![allow(dead_code, unused_imports, deprecated, non_camel_case_types, unused_parens, unused_variables, unused_mut, unreachable_patterns, clippy::all)]")
    g.add("mod spec;")
    rt = []
    spans = {}
    for p in programs:
        a = g.n + 1
        gen_program(g, p, rnd, rt)
        spans[p.pid] = (a, g.n)
    g.add("fn main() {")
    g.add("    let mut bad = 0u32; let mut n = 0u32;")
    g.add("    let mut chk = |ok: bool, what: &'static str| { n += 1; if !ok { bad += 1; println!(\"RUNTIME-DIFFERS {}\", what); } };")
    for mod, _ in rt:
        g.add(f"    {mod}::runtime(&mut chk);")
    g.add("    println!(\"RUNTIME-COMPARED {} {}\", n, bad); std::process::exit(if bad > 0 { 1 } else { 0 });")
    g.add("}")
    d = os.path.join(work, "constck")
    shutil.rmtree(d, ignore_errors=True)
    xrun.write(os.path.join(d, "Cargo.toml"), RP.REPLAY_CARGO.format(repo=xrun.REPO).replace('name = "vreplay"', 'name = "vconst"'))
    xrun.write(os.path.join(d, ".cargo", "config.toml"), "[net]\noffline = true\n")
    shutil.copy(os.path.join(xrun.REPO, "Cargo.lock"), os.path.join(d, "Cargo.lock"))
    xrun.write(os.path.join(d, "src", "main.rs"), "\n".join(g.lines) + "\n")
    shutil.copy(os.path.join(xrun.VERIF, "spec", "spec.rs"), os.path.join(d, "src", "spec.rs"))
    tdir = os.path.join(xrun.WORK, "target-const")
    e = {"CARGO_TARGET_DIR": tdir}
    rc, out = xrun.sh(["cargo", "build", "--offline", "--message-format=json", "-q"], cwd=d, env=e, timeout=3000)
    results = {name: (True, None) for name in g.ob.values()}
    errors = []
    for line in out.splitlines():
        if not line.startswith("{"):
            continue
        try:
            m = json.loads(line)
        except Exception:
            continue
        if m.get("reason") == "compiler-message" and m["message"].get("level") == "error":
            msg = m["message"]
            ln = None
            for sp in msg.get("spans", []):
                if sp.get("is_primary"):
                    x = sp
                    while x.get("expansion") and x["expansion"].get("span"):
                        x = x["expansion"]["span"]
                    if x.get("file_name", "").endswith("src/main.rs"):
                        ln = x["line_start"]
                    break
            errors.append((ln, msg.get("message", ""), (msg.get("code") or {}).get("code") if msg.get("code") else None))
    loose = []
    for ln, msg, code in errors:
        if ln in g.ob:
            results[g.ob[ln]] = (False, f"{code or ''} {msg}"[:300])
        else:
            loose.append((ln, msg, code))
    runtime = {"compared": 0, "differs": [], "ran": []}
    if loose:
        # e.g. an error inside the declaration itself; attribute to the module
        for ln, msg, code in loose:
            pid = None
            for k_, (a, b) in spans.items():
                if ln is not None and a <= ln <= b:
                    pid = k_
            if pid is None:
                raise xrun.Infra(f"CONST crate error not attributable: line {ln}: {msg}")
            results[f"{pid}/<declaration or helper> line {ln}"] = (False, f"{code or ''} {msg}"[:300])
    if not errors:
        for prof in ("debug", "release"):
            cmd = ["cargo", "run", "--offline", "-q"] + (["--release"] if prof == "release" else [])
            rc2, out2 = xrun.sh(cmd, cwd=d, env=e, timeout=3000)
            runtime["ran"].append(prof)
            for l in out2.splitlines():
                if l.startswith("RUNTIME-DIFFERS"):
                    runtime["differs"].append((prof, l[len("RUNTIME-DIFFERS "):]))
                if l.startswith("RUNTIME-COMPARED"):
                    runtime["compared"] += int(l.split()[1])
            if "RUNTIME-COMPARED" not in out2:
                raise xrun.Infra("CONST run-time comparison binary did not finish:\n" + out2[-1500:])
    src_lines = g.lines
    return results, runtime, {name: src_lines[ln - 1].strip() for ln, name in g.ob.items()}
