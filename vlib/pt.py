"""PT: layout-parametric template obligations.  The arithmetic text inside the leaf `quote!{}` blocks of
bitbybit/src/bitfield/codegen.rs is re-extracted on every run (annotator --quotes: syn parse, function + hole set
identify a template), the interpolation holes are turned into symbolic parameters by a fixed rewrite table, and a
loop-free Kani harness proves the per-bit postcondition for a SYMBOLIC bit position k, for every legal layout
(lo, width, stride, count, index, shifts) at each storage width.  Dropped: all of the generator's control flow (which
template is used for which field, the scan accumulation of target bits, the `|` join -- see META lemma_union_disjoint)."""
import os, re, json, shutil
from . import xrun
from .xrun import Infra

USIZE_HOLES = ("lowest_bit", "number_of_bits", "shift_left", "shift_right", "indexed_stride")
REWRITE = {"one": "ONE", "internal_base_data_type": "W", "primitive_type": "P", "argument_converted": "arg",
           "clear_mask": "mask", "mask": "mask", "new_bits": "new_bits"}

# key -> (function, hole set, needs (free identifiers used by the text))
TEMPLATES = {
    "getter_term": ("getter_packed", {"lowest_bit", "array_shift", "one", "number_of_bits", "shift_left"}),
    "bool_getter": ("extracted_bits", {"one", "lowest_bit", "array_shift"}),
    "full_getter": ("extracted_bits", {"primitive_type"}),
    "bool_setter": ("setter_new_raw_value", {"argument_converted", "one", "lowest_bit"}),
    "bool_setter_arr": ("setter_new_raw_value", {"argument_converted", "one", "lowest_bit", "indexed_stride"}),
    "range_setter": ("setter_new_raw_value", {"one", "number_of_bits", "lowest_bit", "argument_converted", "internal_base_data_type"}),
    "range_setter_arr": ("setter_new_raw_value", {"one", "number_of_bits", "lowest_bit", "argument_converted", "internal_base_data_type", "indexed_stride"}),
    "full_setter": ("setter_new_raw_value", {"argument_converted", "internal_base_data_type"}),
    "new_bits_term": ("setter_new_bits", {"one", "number_of_bits", "lowest_bit", "shift_right"}),
    "mask_term": ("setter_mask", {"one", "number_of_bits", "lowest_bit"}),
    "combine": ("setter_new_raw_value", {"argument_converted", "internal_base_data_type", "mask", "new_bits"}),
    "combine_arr": ("setter_new_raw_value", {"argument_converted", "internal_base_data_type", "clear_mask", "new_bits", "indexed_stride"}),
}

# which properties a template obligation supports (ens part); every template also supports C16 (totality)
SERVES = {
    "getter_term": ("C01", "C04"), "getter_term_arr": ("C03", "C04"), "bool_getter": ("C01",), "bool_getter_arr": ("C03",),
    "full_getter": ("C01", "C05"), "bool_setter": ("C02",), "bool_setter_arr": ("C03",), "range_setter": ("C02", "C05"),
    "range_setter_arr": ("C03",), "full_setter": ("C02",), "new_bits_term": ("C04",), "mask_term": ("C04",), "combine": ("C04",),
    "combine_arr": ("C04", "C03"),
}


def extract():
    """returns {key: token text} for the templates found unambiguously, and {key: reason} for lost anchors"""
    xrun.ensure_annotator()
    src = os.path.join(xrun.REPO, "bitbybit", "src", "bitfield", "codegen.rs")
    outp = os.path.join(xrun.WORK, f"quotes-{os.getpid()}.json")
    os.makedirs(xrun.WORK, exist_ok=True)
    rc, out = xrun.sh([xrun.ANNOTATOR, "--quotes", src, outp])
    if rc != 0:
        raise Infra("PT: quote extraction failed:\n" + out[-1500:])
    qs = json.load(open(outp))
    os.remove(outp)
    found, lost = {}, {}
    for key, (fn, holes) in TEMPLATES.items():
        cands = []
        for q in qs:
            if q["fn"] != fn:
                continue
            hs = set(re.findall(r"#\s*([A-Za-z_]\w*)", q["tokens"]))
            if hs == holes and "# (" not in q["tokens"]:
                cands.append(q)
        if len(cands) == 1:
            found[key] = cands[0]["tokens"]
        else:
            lost[key] = f"{len(cands)} quote! blocks in fn {fn} have the hole set {sorted(holes)}"
    return found, lost


def instantiate(tokens, array_shift=None):
    """template tokens -> Rust expression text over the symbolic parameters"""
    t = tokens
    t = re.sub(r"#\s*array_shift", "+ index * indexed_stride" if array_shift else "", t)
    for h in USIZE_HOLES:
        t = re.sub(r"#\s*" + h + r"\b", h, t)
    for h, r in REWRITE.items():
        t = re.sub(r"#\s*" + h + r"\b", r, t)
    t = re.sub(r"self\s*\.\s*[A-Za-z_]\w*\b(?!\s*\()", "raw", t)     # the storage field, whatever it is called
    t = re.sub(r"\bconst\s+(MASK|CLEAR_MASK)\s*:", r"let \1 :", t)      # a const cannot be initialised from a parameter
    if "#" in t:
        raise Infra("PT: an unknown hole survived the rewrite table: " + t[:200])
    return t


BIT = "fn bit(x: W, k: usize) -> bool { (x >> k) & 1 == 1 }\n"

# layout rules as worded in C01/C03/C09 (n >= 1, everything addressed lies inside the storage word)
RANGE_OK = "kani::assume(number_of_bits >= 1 && number_of_bits < BITS && lowest_bit < BITS && lowest_bit + number_of_bits <= BITS);"
ARR_OK = ("kani::assume(count >= 2 && count <= BITS && index < count && indexed_stride <= BITS && number_of_bits <= indexed_stride && "
          "(count - 1) * indexed_stride + lowest_bit + number_of_bits <= BITS);")


def module_text(wbits, found):
    W = f"u{wbits}"
    L = [f"pub mod pt_{W} {{", "    #![allow(non_snake_case, unused_parens, unused_variables, unused_braces)]",
         f"    type W = {W}; type SW = i{wbits}; const ONE: W = 1; const BITS: usize = {wbits};", "    " + BIT]
    hs = []   # (harness name, key)

    def fn(name, params, ret, body):
        L.append(f"    fn {name}({params}) -> {ret} {{ {body} }}")

    def harness(name, key, body):
        L.append(f"    #[cfg(kani)] #[kani::proof] fn {name}() {{ {body} kani::cover!(true); }}")
        hs.append((f"{name}", key))

    anyu = lambda *names: " ".join(f"let {n}: usize = kani::any();" for n in names)
    k_decl = "let k: usize = kani::any(); kani::assume(k < BITS);"
    pre = f"p{wbits}_"
    if "getter_term" in found:
        fn("t_getter_term", "raw: W, lowest_bit: usize, number_of_bits: usize, shift_left: usize", "W", instantiate(found["getter_term"]))
        harness(pre + "getter_term", "getter_term",
                f"let raw: W = kani::any(); {anyu('lowest_bit', 'number_of_bits', 'shift_left')} {RANGE_OK} kani::assume(shift_left < BITS && shift_left + number_of_bits <= BITS); "
                f"let r = t_getter_term(raw, lowest_bit, number_of_bits, shift_left); {k_decl} "
                "let e = if k >= shift_left && k < shift_left + number_of_bits { bit(raw, lowest_bit + k - shift_left) } else { false }; assert!(bit(r, k) == e);")
        fn("t_getter_term_arr", "raw: W, lowest_bit: usize, number_of_bits: usize, shift_left: usize, index: usize, indexed_stride: usize", "W",
           instantiate(found["getter_term"], True))
        harness(pre + "getter_term_arr", "getter_term_arr",
                f"let raw: W = kani::any(); {anyu('lowest_bit', 'number_of_bits', 'shift_left', 'index', 'indexed_stride', 'count')} {RANGE_OK} "
                "kani::assume(shift_left < BITS && shift_left + number_of_bits <= BITS); "
                "kani::assume(count >= 2 && count <= BITS && index < count && indexed_stride <= BITS && (count - 1) * indexed_stride + lowest_bit + number_of_bits <= BITS); "
                f"let r = t_getter_term_arr(raw, lowest_bit, number_of_bits, shift_left, index, indexed_stride); {k_decl} let s = index * indexed_stride; "
                "let e = if k >= shift_left && k < shift_left + number_of_bits { bit(raw, lowest_bit + s + k - shift_left) } else { false }; assert!(bit(r, k) == e);")
    if "bool_getter" in found:
        fn("t_bool_getter", "raw: W, lowest_bit: usize", "bool", instantiate(found["bool_getter"]))
        harness(pre + "bool_getter", "bool_getter",
                f"let raw: W = kani::any(); {anyu('lowest_bit')} kani::assume(lowest_bit < BITS); assert!(t_bool_getter(raw, lowest_bit) == bit(raw, lowest_bit));")
        fn("t_bool_getter_arr", "raw: W, lowest_bit: usize, index: usize, indexed_stride: usize", "bool", instantiate(found["bool_getter"], True))
        harness(pre + "bool_getter_arr", "bool_getter_arr",
                f"let raw: W = kani::any(); {anyu('lowest_bit', 'index', 'indexed_stride', 'count')} "
                "kani::assume(count >= 2 && count <= BITS && index < count && indexed_stride >= 1 && indexed_stride <= BITS && lowest_bit < BITS && (count - 1) * indexed_stride + lowest_bit + 1 <= BITS); "
                "assert!(t_bool_getter_arr(raw, lowest_bit, index, indexed_stride) == bit(raw, lowest_bit + index * indexed_stride));")
    if "full_getter" in found:
        L.append("    mod fg_u { use super::*; type P = W; pub fn t(raw: W) -> P { " + instantiate(found["full_getter"]) + " } }")
        L.append("    mod fg_s { use super::*; type P = SW; pub fn t(raw: W) -> P { " + instantiate(found["full_getter"]) + " } }")
        harness(pre + "full_getter", "full_getter", "let raw: W = kani::any(); assert!(fg_u::t(raw) == raw); assert!((fg_s::t(raw) as W) == raw);")
    if "bool_setter" in found:
        fn("t_bool_setter", "raw: W, lowest_bit: usize, arg: bool", "W", instantiate(found["bool_setter"]))
        harness(pre + "bool_setter", "bool_setter",
                f"let raw: W = kani::any(); let arg: bool = kani::any(); {anyu('lowest_bit')} kani::assume(lowest_bit < BITS); "
                f"let r = t_bool_setter(raw, lowest_bit, arg); {k_decl} assert!(bit(r, k) == (if k == lowest_bit {{ arg }} else {{ bit(raw, k) }}));")
    if "bool_setter_arr" in found:
        fn("t_bool_setter_arr", "raw: W, lowest_bit: usize, arg: bool, index: usize, indexed_stride: usize", "W", instantiate(found["bool_setter_arr"]))
        harness(pre + "bool_setter_arr", "bool_setter_arr",
                f"let raw: W = kani::any(); let arg: bool = kani::any(); {anyu('lowest_bit', 'index', 'indexed_stride', 'count')} "
                "kani::assume(count >= 2 && count <= BITS && index < count && indexed_stride >= 1 && indexed_stride <= BITS && lowest_bit < BITS && (count - 1) * indexed_stride + lowest_bit + 1 <= BITS); "
                f"let r = t_bool_setter_arr(raw, lowest_bit, arg, index, indexed_stride); {k_decl} "
                "assert!(bit(r, k) == (if k == lowest_bit + index * indexed_stride { arg } else { bit(raw, k) }));")
    if "range_setter" in found:
        fn("t_range_setter", "raw: W, lowest_bit: usize, number_of_bits: usize, arg: W", "W", instantiate(found["range_setter"]))
        harness(pre + "range_setter", "range_setter",
                f"let raw: W = kani::any(); let arg: W = kani::any(); {anyu('lowest_bit', 'number_of_bits')} {RANGE_OK} kani::assume(arg >> number_of_bits == 0); "
                f"let r = t_range_setter(raw, lowest_bit, number_of_bits, arg); {k_decl} "
                "let e = if k >= lowest_bit && k < lowest_bit + number_of_bits { bit(arg, k - lowest_bit) } else { bit(raw, k) }; assert!(bit(r, k) == e);")
    if "range_setter_arr" in found:
        fn("t_range_setter_arr", "raw: W, lowest_bit: usize, number_of_bits: usize, arg: W, index: usize, indexed_stride: usize", "W", instantiate(found["range_setter_arr"]))
        harness(pre + "range_setter_arr", "range_setter_arr",
                f"let raw: W = kani::any(); let arg: W = kani::any(); {anyu('lowest_bit', 'number_of_bits', 'index', 'indexed_stride', 'count')} {RANGE_OK} {ARR_OK} "
                "kani::assume(arg >> number_of_bits == 0); "
                f"let r = t_range_setter_arr(raw, lowest_bit, number_of_bits, arg, index, indexed_stride); {k_decl} let lo = lowest_bit + index * indexed_stride; "
                "let e = if k >= lo && k < lo + number_of_bits { bit(arg, k - lo) } else { bit(raw, k) }; assert!(bit(r, k) == e);")
    if "full_setter" in found:
        fn("t_full_setter", "raw: W, arg: W", "W", instantiate(found["full_setter"]))
        harness(pre + "full_setter", "full_setter", "let raw: W = kani::any(); let arg: W = kani::any(); assert!(t_full_setter(raw, arg) == arg);")
    if "new_bits_term" in found:
        fn("t_new_bits_term", "temp: W, lowest_bit: usize, number_of_bits: usize, shift_right: usize", "W", instantiate(found["new_bits_term"]))
        harness(pre + "new_bits_term", "new_bits_term",
                f"let temp: W = kani::any(); {anyu('lowest_bit', 'number_of_bits', 'shift_right')} {RANGE_OK} kani::assume(shift_right < BITS && shift_right + number_of_bits <= BITS); "
                f"let r = t_new_bits_term(temp, lowest_bit, number_of_bits, shift_right); {k_decl} "
                "let e = if k >= lowest_bit && k < lowest_bit + number_of_bits { bit(temp, shift_right + k - lowest_bit) } else { false }; assert!(bit(r, k) == e);")
    if "mask_term" in found:
        fn("t_mask_term", "lowest_bit: usize, number_of_bits: usize", "W", instantiate(found["mask_term"]))
        harness(pre + "mask_term", "mask_term",
                f"{anyu('lowest_bit', 'number_of_bits')} {RANGE_OK} let r = t_mask_term(lowest_bit, number_of_bits); {k_decl} "
                "assert!(bit(r, k) == (k >= lowest_bit && k < lowest_bit + number_of_bits));")
    if "combine" in found:
        fn("t_combine", "raw: W, arg: W, mask: W, new_bits: W", "W", instantiate(found["combine"]))
        harness(pre + "combine", "combine",
                "let raw: W = kani::any(); let arg: W = kani::any(); let mask: W = kani::any(); let new_bits: W = kani::any(); kani::assume(new_bits & !mask == 0); "
                f"let r = t_combine(raw, arg, mask, new_bits); {k_decl} assert!(bit(r, k) == (if bit(mask, k) {{ bit(new_bits, k) }} else {{ bit(raw, k) }}));")
    if "combine_arr" in found:
        fn("t_combine_arr", "raw: W, arg: W, mask: W, new_bits: W, index: usize, indexed_stride: usize", "W", instantiate(found["combine_arr"]))
        harness(pre + "combine_arr", "combine_arr",
                f"let raw: W = kani::any(); let arg: W = kani::any(); let mask: W = kani::any(); let new_bits: W = kani::any(); {anyu('index', 'indexed_stride', 'count', 'span')} "
                "kani::assume(span >= 1 && span <= BITS && indexed_stride <= BITS && count >= 2 && count <= BITS && index < count && (count - 1) * indexed_stride + span <= BITS); "
                "kani::assume(span == BITS || mask >> span == 0); kani::assume(new_bits & !mask == 0); "
                f"let r = t_combine_arr(raw, arg, mask, new_bits, index, indexed_stride); {k_decl} let s = index * indexed_stride; "
                "let e = if k >= s && bit(mask, k - s) { bit(new_bits, k - s) } else { bit(raw, k) }; assert!(bit(r, k) == e);")
    L.append("}")
    return "\n".join(L) + "\n", hs


CARGO = """[package]
name = "vpt"
version = "0.1.0"
edition = "2021"

[workspace]

[lints.rust]
unexpected_cfgs = "allow"
"""


def run(work, widths=(8, 16, 32, 64, 128), keys=None):
    found, lost = extract()
    d = os.path.join(work, "pt")
    shutil.rmtree(d, ignore_errors=True)
    xrun.write(os.path.join(d, "Cargo.toml"), CARGO)
    body = ["#![allow(dead_code, arithmetic_overflow, unused_parens, unused_variables, unused_braces, non_snake_case, non_upper_case_globals, clippy::all)]\n"]
    hs = []
    for w in widths:
        t, h = module_text(w, found)
        body.append(t)
        hs += h
    xrun.write(os.path.join(d, "src", "lib.rs"), "".join(body))
    if not hs:
        return {}, lost, found, []
    outj = os.path.join(d, "out.json")
    if keys is not None:
        hs = [(n, k) for n, k in hs if k in keys]
    cmd = ["cargo", "kani", "-Z", "unstable-options", "-j", str(xrun.NCPU), "--output-format", "terse", "--export-json", outj, "--harness-timeout", "600s"]
    if keys is not None:
        for n, _ in hs:
            cmd += ["--harness", n, ]
        cmd += ["--exact"] if False else []
    rc, out = xrun.sh(cmd, cwd=d, timeout=3600)
    if not os.path.exists(outj):
        raise Infra("PT: cargo kani produced no result (template text does not compile after the rewrite?):\n" + out[-3000:])
    dj = json.load(open(outj))
    stats = {c["harness_id"]: c.get("cbmc_stats") or {} for c in dj.get("cbmc", [])}
    gotos = {h["pretty_name"]: h["goto_file"] for h in dj["harness_metadata"]}
    res = {}
    for r in dj["verification_results"]["results"]:
        short = r["harness_id"].split("::")[-1]
        res[short] = {"status": r["status"], "checks": r["checks"], "solver_s": stats.get(r["harness_id"], {}).get("runtime_solver_s", 0.0),
                      "goto": gotos.get(r["harness_id"])}
    return res, lost, found, hs


PT_VARS = ("raw", "arg", "lowest_bit", "number_of_bits", "shift_left", "shift_right", "index", "indexed_stride", "count", "k", "temp", "mask", "new_bits", "span")


def trace_values(goto, chk):
    """layout + input of a failed template obligation from CBMC's trace"""
    from . import driver
    import subprocess
    if goto.endswith(".symtab.out"):
        goto = goto[:-len(".symtab.out")] + ".out"
    if not os.path.exists(goto):
        return None
    pname = driver.cbmc_property_name(goto, chk)
    if not pname:
        return None
    cmd = ["cbmc", "--no-malloc-may-fail", "--no-undefined-shift-check", "--no-signed-overflow-check", "--nan-check", "--no-self-loops-to-assumptions",
           "--no-pointer-primitive-check", "--object-bits", "16", "--sat-solver", "cadical", "--trace", "--property", pname, goto]
    try:
        rc, out = xrun.sh(cmd, timeout=300)
    except subprocess.TimeoutExpired:
        return None
    vals = {}
    for m in re.finditer(r"^\s+(" + "|".join(PT_VARS) + r")=(-?\d+|TRUE|FALSE)(?:[uUlL]*)\b", out, re.M):
        v = m.group(2)
        vals[m.group(1)] = 1 if v == "TRUE" else 0 if v == "FALSE" else int(v)
    return vals or None


def replay_source(key, vals, wbits):
    """a declaration with exactly the counterexample's layout, expanded by the REAL macro, run on the counterexample's input.
    None when no declaration uses this template with this layout."""
    from .model import Struct, Field, Program, T_u, T_bool
    from . import contracts as C, replay as RP
    g = lambda n, d=0: int(vals.get(n, d))
    lo, n, idx, stride, count = g("lowest_bit"), g("number_of_bits", 1), g("index"), g("indexed_stride"), g("count", 0)
    base = key.replace("_arr", "")
    arr = (count, stride) if key.endswith("_arr") and count >= 2 else None
    ranges = [(lo, n)]
    ty = T_u(n)
    kind = "get"
    if base in ("bool_getter", "bool_setter"):
        ty, ranges = T_bool(), [(lo, 1)]
        kind = "get" if base == "bool_getter" else "with"
    elif base == "getter_term":
        sl = g("shift_left")
        span = (count - 1) * stride if arr else 0
        free = None
        m = sl if sl > 0 else 1
        for x in list(range(0, wbits - m + 1)):
            if x + m <= lo or x >= lo + n:
                if not arr or (x + m + span <= wbits and (stride >= max(lo + n, x + m) - min(lo, x))):
                    free = x
                    break
        if free is None:
            return None
        ranges = [(free, sl), (lo, n)] if sl > 0 else [(lo, n), (free, 1)]
        ty = T_u(sum(r[1] for r in ranges))
    elif base == "range_setter":
        kind = "with"
    elif base in ("full_getter", "full_setter"):
        ranges, ty, kind = [(0, wbits)], T_u(wbits), ("get" if base == "full_getter" else "with")
    else:
        return None          # terms of the multi-range setter: no single declaration isolates them
    try:
        st = Struct("Spt", wbits, [Field("f", ty, ranges, array=arr)])
        if not st.valid():
            return None
        p = Program("pt", structs=[st], props=())
        h = [x for x in C.struct_harnesses(p, st) if x.kind == kind and x.fld is not None][0]
        raw = g("raw")
        v = g("arg")
        if base == "getter_term" or kind == "get":
            inp = {"in_raw": raw, "in_index": idx}
        else:
            width = sum(r[1] for r in ranges)
            inp = {"in_raw": raw, "in_index": idx, "in_val_v": v & ((1 << width) - 1)}
        return RP.program_source(p, h, inp), p.decl_text()
    except Exception:
        return None


def add_obligations(out, prop, widths=(8, 16, 32, 64, 128)):
    from . import driver
    work = os.path.join(xrun.WORK, prop)
    os.makedirs(work, exist_ok=True)
    keys = None if prop == "C16" else {k for k, ps in SERVES.items() if prop in ps}
    try:
        res, lost, found, hs = run(work, widths, keys)
    except Infra as e:
        # the template text no longer fits the rewrite table (renamed locals, new constructs): undecided, never an alarm
        out.notes.append("PT: template obligations UNDECIDED in this run: " + str(e)[:400])
        out.extra["pt_undecided"] = "all"
        return
    if lost:
        out.notes.append("PT: anchors lost or ambiguous, these templates are UNDECIDED in this run (never a violation): " + json.dumps(lost))
        out.extra["pt_undecided"] = sorted(lost)
    items = []
    for name, key in hs:
        if prop != "C16" and prop not in SERVES.get(key, ()):
            continue
        r = res.get(name)
        if r is None:
            out.notes.append(f"PT: harness {name} did not run")
            continue
        failed = [c for c in r["checks"] if c["status"] in ("Failure", "Failed")]
        undet = [c for c in r["checks"] if c["status"] == "Undetermined"]
        if prop == "C16":
            failed = [c for c in failed if xrun.classify_check(c) in ("safe_overflow", "safe_panic")]
        if undet and not failed:
            out.notes.append(f"PT: {name} undetermined")
            continue
        covers = [c for c in r["checks"] if c.get("category") == "cover"]
        if not failed and not any(c["status"] == "Satisfied" for c in covers):
            raise Infra(f"PT: vacuous harness {name} (layout assumptions contradictory)")
        ok = not failed
        ob = f"{prop}/pt/{name}"
        out.add_ob(ob, "pt-template", "Kani/CBMC+CaDiCaL on the re-extracted quote! template", ok)
        out.functions.add(f"codegen.rs::{TEMPLATES[key.replace('_arr', '') if key.replace('_arr', '') in TEMPLATES and key not in TEMPLATES else key][0]}#{key}")
        out.solver_s += r.get("solver_s") or 0.0
        if len(out.samples) < 12 and name.startswith("p32_"):
            out.samples.append({"obligation": ob, "template": found.get(key.replace("_arr", "") if key not in found else key, "")[:300]})
        if not ok:
            c = failed[0]
            vals, src, decl = None, None, None
            if len(items) < 4 and r.get("goto"):
                vals = trace_values(r["goto"], c)
                if vals:
                    rs = replay_source(key, vals, int(re.match(r"p(\d+)_", name).group(1)))
                    if rs:
                        src, decl = rs
            items.append({"obligation": ob, "detail": f"template {key}: {driver.norm_ws(c.get('description', ''))[:200]} ({c.get('function')})",
                          "program_text": (decl + "\n// " if decl else "") + f"quote! template `{key}` of bitbybit/src/bitfield/codegen.rs: " + found.get(key if key in found else key.replace("_arr", ""), ""),
                          "verifier_output": {"failed_checks": [{k: c2.get(k) for k in ("function", "description", "category", "location")} for c2 in failed[:5]]},
                          "inputs": vals, "src": src})
    if items:
        driver.report_violations(out, items[:6], kind="pt")
        if len(items) > 6:
            out.extra.setdefault("further_failed_obligations", [])
            out.extra["further_failed_obligations"] += [i["obligation"] for i in items[6:]]
    shutil.rmtree(os.path.join(work, "pt", "target"), ignore_errors=True)
