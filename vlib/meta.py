"""META: Verus lemmas over the contracts + adequacy of spec/spec.rs against the per-bit model.
The Verus input is assembled on every run: meta/prelude.rs + spec/spec.rs with its `//@` lines uncommented + meta/lemmas.rs."""
import os, re, json, subprocess
from . import xrun
from .xrun import Infra

# lemma -> properties it supports
SERVES = {
    "get_spec": ("C01", "C03", "C04", "C05", "C08", "C12"), "put_spec": ("C02", "C03", "C04", "C05", "C08", "C11", "C12", "C13"), "fits": ("C11",),
    "lemma_put_frame": ("C02", "C03", "C04", "C17", "C12"), "lemma_put_scatter": ("C04",), "lemma_read_after_write": ("C02", "C04"),
    "lemma_history": ("C12",), "lemma_commute": ("C12",), "lemma_overwrite": ("C12",), "lemma_alias": ("C12",), "lemma_frame": ("C12", "C17"),
    "lemma_inv_history": ("C11",), "lemma_builder_chain": ("C13",), "lemma_lww_uncovered": ("C13",), "lemma_union_disjoint": ("C04",),
    "lemma_getter_join": ("C01", "C04"), "lemma_setter_combine": ("C02", "C04"),
    "lemma_mask_join_covered": (), "lemma_scatter_join_disjoint": (), "lemma_scatter_none_below": (), "lemma_covered_wit": (),
    "lemma_total_mono": (), "lemma_get_high": (), "lemma_orbit": (), "lemma_zero": (), "lemma_setbit": (),
}
SUPPORT = ("lemma_total_mono", "lemma_get_high", "lemma_orbit", "lemma_zero", "lemma_setbit",
           "lemma_mask_join_covered", "lemma_scatter_join_disjoint", "lemma_scatter_none_below", "lemma_covered_wit")


def assemble():
    spec = open(os.path.join(xrun.VERIF, "spec", "spec.rs")).read()
    # `//@ret r` names the return value of the signature on the previous line
    spec = re.sub(r"-> ([A-Za-z0-9_]+)\s*\n//@ret (\w+)", r"-> (\2: \1)", spec)
    spec = re.sub(r"^(\s*)//@ ?", r"\1", spec, flags=re.M)
    pre = open(os.path.join(xrun.VERIF, "meta", "prelude.rs")).read()
    lem = open(os.path.join(xrun.VERIF, "meta", "lemmas.rs")).read()
    return "use vstd::prelude::*;\nverus! {\n" + pre + "\n" + spec + "\n" + lem + "\n} // verus!\nfn main() {}\n"


def run(work):
    os.makedirs(work, exist_ok=True)
    path = os.path.join(work, "meta.rs")
    xrun.write(path, assemble())
    rc, out = xrun.sh(["verus", path, "--triggers-mode", "silent", "--output-json", "--time"], cwd=work, timeout=1200)
    m = re.search(r"^\{\s*$", out, re.M)
    i = m.start() if m else out.find("{")
    try:
        d = json.loads(out[i:out.rindex("}") + 1])
    except Exception:
        raise Infra("META: verus output not parseable:\n" + out[-2500:])
    vr = d.get("verification-results", {})
    if vr.get("encountered-vir-error") or (vr.get("encountered-error") and not vr.get("errors")):
        raise Infra("META: verus could not process the assembled file (anchor or syntax problem):\n" + out[-2500:])
    funcs = {}
    for m in d.get("times-ms", {}).get("smt", {}).get("smt-run-module-times", []):
        for f in m.get("function-breakdown", []):
            name = f["function"].split("::")[-1]
            funcs[name] = {"ok": bool(f.get("success")), "ms": f.get("time", 0), "mode": f.get("mode:")}
    smt_ms = d.get("times-ms", {}).get("smt", {}).get("total", 0)
    return funcs, vr, smt_ms, out


def add_obligations(out, prop):
    work = os.path.join(xrun.WORK, prop, "meta")
    funcs, vr, smt_ms, raw = run(work)
    want = [n for n, ps in SERVES.items() if prop in ps]
    if not want:
        return
    need = set(want) | set(SUPPORT)
    missing = [n for n in need if n not in funcs]
    if missing:
        raise Infra(f"META: functions missing from the Verus run: {missing}")
    from . import driver
    items = []
    for n in sorted(need):
        f = funcs[n]
        kind = "adequacy" if n in ("get_spec", "put_spec", "fits") else ("support-lemma" if n in SUPPORT else "meta-lemma")
        ob = f"{prop}/meta/{n}"
        out.add_ob(ob, kind, "Verus/Z3", f["ok"])
        if kind != "support-lemma":
            out.functions.add(("spec::" if kind == "adequacy" else "meta::") + n)
        if not f["ok"]:
            items.append({"obligation": ob, "detail": f"Verus could not discharge {n}", "program_text": "meta/ (spec-level lemma, independent of /repo)",
                          "verifier_output": {"verus": raw[-2000:]}, "inputs": None, "src": None})
    out.solver_s += smt_ms / 1000.0
    out.extra["verus"] = {"verified": vr.get("verified"), "errors": vr.get("errors"), "smt_ms": smt_ms}
    if items:
        # a failing META lemma is a defect of the verification machinery (it does not look at /repo): infrastructure, not a violation
        raise Infra("META lemma not discharged: " + ", ".join(i["obligation"] for i in items))
