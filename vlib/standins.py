"""Checks built on the bounded stand-ins ACC / INV / CONST (DESIGN.md 4.5) combined with unit X."""
import os, json, shutil
from . import acc, xrun, driver, inv, corpus, constck, dbgck, gen, contracts as C
from .driver import Outcome, finish, run_x, report_violations
from .model import *

RUSTC_CMD = "cargo build --message-format=json on generated crates that use the real macro from /repo (diagnostics mapped to declarations by primary span)"


def _norm_decl(text):
    return " ".join(text.split())


def check_c09(out: Outcome):
    work = os.path.join(xrun.WORK, "C09")
    os.makedirs(work, exist_ok=True)
    decls = acc.c09_decls(out.tier, out.seed)
    verdict, _ = acc.classify(work, "acc", decls, lambda p: p.decl_text())
    items = []
    accepted_valid, accepted_invalid = [], []
    n_valid = n_invalid = 0
    for p in decls:
        s = p.structs[-1]
        expect = s.valid()
        n_valid += expect
        n_invalid += (not expect)
        accepted = verdict[p.pid] is None
        ok = (expect == accepted)
        ob = f"C09/acc/{_norm_decl(s.decl())}"
        out.add_ob(ob, "accept" if expect else "reject", "rustc + real macro vs. rule oracle (bounded enumeration)", ok)
        if len(out.samples) < 8 and (p.pid.endswith("7") or not ok):
            out.samples.append({"declaration": _norm_decl(s.decl()), "rule_says": "accept" if expect else "reject",
                                "rustc_says": "accept" if accepted else "reject: " + verdict[p.pid][0]["message"][:120]})
        if accepted and expect:
            accepted_valid.append(p)
        if accepted and not expect:
            accepted_invalid.append(p)
        if not ok:
            what = ("a rule-invalid declaration is accepted" if accepted else
                    "a rule-valid declaration is rejected: " + verdict[p.pid][0]["message"][:200])
            items.append({"obligation": ob, "detail": what + f" [{p.note}]", "program_text": p.decl_text(),
                          "verifier_output": {"rustc": (verdict[p.pid] or [{"message": "compiled without error"}])[0]},
                          "inputs": None, "src": None, "prog": p,
                          "extra": {"acc_expect": "reject" if not expect else "accept", "acc_declaration": p.decl_text()}})
    out.programs += len(decls)
    out.bounded.append(f"C09 accept/reject: bounded enumeration of {len(decls)} single-field declarations ({n_valid} rule-valid, {n_invalid} rule-invalid); "
                       "bases, boundary bit positions, type widths n-1/n/n+1, arrays K x stride, range lists incl. reversed bounds; see vlib/acc.py")
    # accepted => accessors exact and total: proof per accepted program (sample in quick, all in thorough)
    step = 1 if out.tier == "thorough" else max(1, len(accepted_valid) // 40)
    sample = accepted_valid[::step]
    run_x(out, sample, "C09", tag="C09x", history=False)
    # an accepted rule-invalid declaration whose contracts are still well-formed (only the bounds rule is broken):
    # let X name the obligation that fails and give a concrete misbehaving input
    coherent = [p for p in accepted_invalid if all(n >= 1 for f in p.structs[-1].fields for _, n in f.ranges)
                and all((f.ty.kind == "bool" and f.nbits == 1) or f.ty.width == f.nbits for f in p.structs[-1].fields)
                and all(max(lo + n for lo, n in f.ranges) + (f.count - 1) * f.stride <= p.structs[-1].storage for f in p.structs[-1].fields)]
    xfail = {}
    if coherent:
        sub = Outcome("C09", out.tier, out.seed)
        for it in run_x(sub, coherent[:12], "C09", tag="C09y", history=False, collect_only=True, max_cex=12):
            pid = it["obligation"].split("/")[1]
            xfail.setdefault(pid, []).append(it)
        out.solver_s += sub.solver_s
    from . import replay as RP
    for it in items:
        p = it.pop("prog")
        xs = xfail.get(p.pid, [])
        if xs:
            it["extra"]["x_failed_obligations"] = [{"obligation": x["obligation"], "detail": x["detail"], "inputs": x["inputs"]} for x in xs[:6]]
            withsrc = [x for x in xs if x.get("src")]
            if withsrc:
                it["src"] = withsrc[0]["src"]
                it["inputs"] = withsrc[0]["inputs"]
                it["detail"] += " -- X: " + withsrc[0]["detail"][:160]
    # replay of an ACC violation without an X counterexample: the declaration itself, compiled with the real macro
    for n_, it in enumerate(items):
        if not it.get("src") and n_ < 10:
            compiles, diag = acc.replay_compile(it["program_text"])
            want_reject = it["extra"]["acc_expect"] == "reject"
            it["extra"]["acc_replay"] = {"compiles": compiles, "diagnostics": diag[-600:]}
            it["extra"]["reproduced_by_compilation"] = (compiles == want_reject)
    # every declaration of the stage-2 corpus is rule-valid by construction (asserted when the corpus is built): each must be accepted
    cprogs = [p for p in corpus.all_programs(out.tier, out.seed) if p.structs]
    cverdict, _ = acc.classify(work, "corpus", cprogs, lambda p: p.decl_text())
    for p in cprogs:
        okc = cverdict[p.pid] is None
        ob = f"C09/corpus/{p.pid}/" + _norm_decl(p.structs[-1].decl())[:160]
        out.add_ob(ob, "accept", "rustc + real macro vs. rule oracle (corpus declaration)", okc)
        if not okc:
            items.append({"obligation": ob, "detail": "a rule-valid corpus declaration is rejected: " + cverdict[p.pid][0]["message"][:200],
                          "program_text": p.decl_text(), "verifier_output": {"rustc": cverdict[p.pid][0]}, "inputs": None, "src": None,
                          "extra": {"acc_expect": "accept", "acc_declaration": p.decl_text(), "reproduced_by_compilation": True}})
    out.programs += len(cprogs)
    report_violations_acc(out, items[:16])
    if len(items) > 16:
        out.extra["further_failed_obligations"] = [i["obligation"] for i in items[16:]]
    gen.add_obligations(out, "C09")
    return finish(out, "translation_validation", RUSTC_CMD + "; accepted declarations: " + C_KANI,
                  explanation="bounded accept/reject enumeration against the rule of C09 + Kani proof of exactness/totality for accepted declarations")


C_KANI = "cargo kani -Z function-contracts -Z stubbing (proof_for_contract on the annotated real expansion)"


def report_violations_acc(out, items):
    """like driver.report_violations, but a violation without replay program counts as reproduced when the
    compile-replay confirmed the accept/reject disagreement"""
    report_violations(out, items, kind="acc")
    for v, it in zip(out.violations[-len(items):] if items else [], items):
        if it["extra"].get("reproduced_by_compilation"):
            v["no_input"] = False
            rec = json.load(open(v["replay"]))
            rec["reproduced_on_real_code"] = True
            json.dump(rec, open(v["replay"], "w"), indent=1)


def c11_above_top(out: Outcome):
    """C11 stand-in (bounded): on an arbitrary-int base uN no ACCEPTED declaration may address a bit above N-1 (the storage integer
    has such bits; a field, array element or list entry reaching them creates state that raw_value() cannot carry).  The single-field
    declarations are those of the C09 enumeration restricted to arbitrary bases and to fields reaching above bit N-1."""
    work = os.path.join(xrun.WORK, "C11")
    os.makedirs(work, exist_ok=True)
    decls = []
    for p in acc.c09_decls(out.tier, out.seed):
        s = p.structs[-1]
        if not s.arbitrary_base:
            continue
        try:
            reach = max(max(lo + n for lo, n in f.ranges) + (f.count - 1) * f.stride for f in s.fields)
        except Exception:
            continue
        if reach > s.base_bits and all(n >= 1 for f in s.fields for _, n in f.ranges):
            decls.append(p)
    if not decls:
        return
    verdict, _ = acc.classify(work, "acc11", decls, lambda p: p.decl_text())
    items = []
    for p in decls:
        s = p.structs[-1]
        accepted = verdict[p.pid] is None
        ob = f"C11/acc/{_norm_decl(s.decl())}"
        out.add_ob(ob, "reject-above-top", "rustc + real macro (bounded enumeration): a field reaching above bit N-1 of an arbitrary base must be rejected", not accepted)
        if accepted:
            items.append({"obligation": ob, "detail": f"accepted although it addresses bits above bit {s.base_bits - 1} of u{s.base_bits} [{p.note}]",
                          "program_text": p.decl_text(), "verifier_output": {"rustc": {"message": "compiled without error"}},
                          "inputs": None, "src": None, "extra": {"acc_expect": "reject", "acc_declaration": p.decl_text()}})
    for it in items[:6]:
        compiles, diag = acc.replay_compile(it["program_text"])
        it["extra"]["acc_replay"] = {"compiles": compiles, "diagnostics": diag[-600:]}
        it["extra"]["reproduced_by_compilation"] = bool(compiles)
    out.programs += len(decls)
    out.bounded.append(f"C11 above-top rejection: bounded enumeration of {len(decls)} single-field declarations on arbitrary bases whose field reaches above bit N-1 (vlib/acc.py)")
    report_violations_acc(out, items[:6])
    if len(items) > 6:
        out.extra.setdefault("further_failed_obligations", []).extend(i["obligation"] for i in items[6:])


def check_c10(out: Outcome):
    work = os.path.join(xrun.WORK, "C10")
    os.makedirs(work, exist_ok=True)
    decls = acc.c10_decls(out.tier, out.seed)
    verdict, _ = acc.classify(work, "acc", decls, lambda d: d.text)
    items = []
    accepted = []
    for d in decls:
        acc_ = verdict[d.pid] is None
        ok = (acc_ == d.expect)
        ob = f"C10/acc/{_norm_decl(d.text)}"
        out.add_ob(ob, "accept" if d.expect else "reject", "rustc + real macro vs. rule oracle (bounded enumeration)", ok)
        if len(out.samples) < 8 and (d.pid.endswith("3") or not ok):
            out.samples.append({"declaration": _norm_decl(d.text), "rule_says": "accept" if d.expect else "reject",
                                "rustc_says": "accept" if acc_ else "reject: " + verdict[d.pid][0]["message"][:120]})
        if acc_ and d.expect and d.enum is not None:
            accepted.append(d)
        if not ok:
            what = ("a rule-invalid bitenum is accepted" if acc_ else "a rule-valid bitenum is rejected: " + verdict[d.pid][0]["message"][:200])
            compiles, diag = acc.replay_compile(d.text) if len(items) < 10 else (acc_, "(compile replay skipped: more than 10 disagreements)")
            items.append({"obligation": ob, "detail": what + f" [{d.note}]", "program_text": d.text,
                          "verifier_output": {"rustc": (verdict[d.pid] or [{"message": "compiled without error"}])[0]},
                          "inputs": None, "src": None,
                          "extra": {"acc_expect": "accept" if d.expect else "reject", "acc_declaration": d.text,
                                    "acc_replay": {"compiles": compiles, "diagnostics": diag[-600:]},
                                    "reproduced_by_compilation": compiles == (not d.expect)}})
    out.programs += len(decls)
    out.bounded.append(f"C10 accept/reject: bounded enumeration of {len(decls)} bitenum declarations (N in 1..3(4) x variant count 1..2^N+1 x discriminant sets x "
                       "exhaustive in {true,false,conditional,omitted} x cfg-gated variants; storage classes 0,8,9,16,17,32,33,63,64,65,128); see vlib/acc.py")
    report_violations_acc(out, items)
    # accepted => conversions total and exact: Kani proof per accepted enum (all raw values, all variants)
    progs = []
    step = 1 if out.tier == "thorough" else max(1, len(accepted) // 60)
    for d in accepted[::step]:
        progs.append(Program(d.pid, enums=[d.enum], props=("C10",), decl_override=d.text))
    run_x(out, progs, "C10", tag="C10x", history=False)
    # plus the hand-made corpus enums (wide storage, out-of-order, conditional)
    from . import corpus
    run_x(out, corpus.all_programs(out.tier, out.seed), "C10", tag="C10c", history=False)
    gen.add_obligations(out, "C10")
    return finish(out, "translation_validation", RUSTC_CMD + "; accepted enums: " + C_KANI,
                  explanation="bounded accept/reject enumeration against the rule of C10 + Kani proof that every accepted enum's conversions are total and exact")


def _inventory(out, prop, progs, tag):
    """dump + parse the real expansions of `progs`; returns {type name: inventory}"""
    work = os.path.join(xrun.WORK, tag)
    os.makedirs(work, exist_ok=True)
    dumps, errs = xrun.dump_expansions(work, progs)
    if errs:
        # a rule-valid corpus declaration that does not compile is C09's business (C09 compiles the whole corpus); so that it cannot
        # hide the verdict on the other declarations, it is dropped from THIS check with a note and the rest is dumped again
        bad = set(errs)
        kept = [p for p in progs if p.pid not in bad]
        if not kept or len(kept) == len(progs):
            raise xrun.Infra(f"corpus declarations for {prop} do not compile: " + json.dumps(errs)[:1200])
        out.notes.append(f"{len(bad)} corpus declaration group(s) rejected by rustc and left to C09: " + ", ".join(sorted(bad))
                         + " -- " + json.dumps(errs)[:300])
        out.extra.setdefault("declarations_rejected_by_rustc", []).extend(sorted(bad))
        progs[:] = kept
        dumps, errs = xrun.dump_expansions(work, progs)
        if errs:
            raise xrun.Infra(f"corpus declarations for {prop} do not compile: " + json.dumps(errs)[:1200])
    xrun.bind_rawnames(progs, dumps)
    ann = xrun.annotate(work, progs, dumps, {})
    return work, {t: a[1] for t, a in ann.items()}


def _report_inv(out, prop, failures):
    items = []
    for ob, detail, p, extra in failures[:12]:
        if extra.get("acc_declaration") and "reproduced_by_compilation" not in extra:
            compiles, diag = acc.replay_compile(extra["acc_declaration"])
            extra["acc_replay"] = {"compiles": compiles, "diagnostics": diag[-600:]}
            extra["reproduced_by_compilation"] = (compiles == (extra["acc_expect"] == "reject"))
        items.append({"obligation": ob, "detail": detail, "program_text": p.decl_text(), "verifier_output": extra,
                      "inputs": None, "src": None, "extra": extra})
    report_violations_acc(out, items)
    if len(failures) > 12:
        out.extra["further_failed_obligations"] = [f[0] for f in failures[12:]]


def check_c17(out: Outcome):
    progs = [p for p in corpus.all_programs(out.tier, out.seed) if "C17" in p.props]
    work, invs = _inventory(out, "C17", progs, "C17")
    failures = []
    for p in progs:
        for s in p.structs:
            for name, ok, detail in inv.access_obligations(s, invs[s.name]):
                out.add_ob(f"C17/inv/{p.pid}/{name}", "inventory", "annotator inventory of the real expansion vs. declaration table", ok)
                if not ok:
                    failures.append((f"C17/inv/{p.pid}/{name}", detail, p, {"inventory_of": s.name}))
            out.unsafe_tokens += invs[s.name]["unsafe_tokens"]
    uses = [u for p in progs for u in inv.access_use_programs(p)] + inv.debug_access_programs()
    for u, ok, diag in inv.run_use_programs(work, "use", uses):
        ob = f"C17/use/{u.pid}/{u.what}"
        out.add_ob(ob, "must-compile" if u.expect else "must-not-compile", "rustc + real macro", ok)
        if len(out.samples) < 6:
            out.samples.append({"program": u.use, "expected": "compiles" if u.expect else "must not compile", "rustc": diag})
        if not ok:
            failures.append((ob, f"{u.what}: {diag}", u.base, {"acc_declaration": u.text(), "acc_expect": "accept" if u.expect else "reject",
                                                             "reproduced_by_compilation": True}))
    out.programs += len(progs) + len(uses)
    out.bounded.append(f"C17: inventory and use-programs over {len(progs)} corpus declarations ({len(uses)} must/must-not-compile programs); "
                       "every field kind (scalar, bool, array, non-contiguous, enum, signed, Option<enum> array) x access in r/w/rw/none")
    _report_inv(out, "C17", failures)
    # frame half: read-only bits cannot be changed -- the put_spec frame of every mutating function of these declarations
    try:
        run_x(out, progs, "C17", tag="C17x", history=False)
    except xrun.Infra as e:
        if not out.violations:
            raise
        out.notes.append("the frame proofs could not be built on this tree (the API differs from the declaration table, see the violations): " + str(e)[:300])
    from . import meta
    meta.add_obligations(out, "C17")
    return finish(out, "translation_validation", RUSTC_CMD + "; annotator inventory; frame: " + C_KANI,
                  explanation="API inventory of the real expansion vs. the table, must/must-not-compile programs, and the Kani-proved frame of every mutator")


def check_c14(out: Outcome):
    progs = [p for p in corpus.all_programs(out.tier, out.seed) if "C14" in p.props]
    work, invs = _inventory(out, "C14", progs, "C14")
    failures = []
    for p in progs:
        for s in p.structs:
            for name, ok, detail in inv.builder_obligations(s, invs[s.name]):
                out.add_ob(f"C14/inv/{p.pid}/{name}", "inventory", "annotator inventory of the real expansion vs. declaration table", ok)
                if not ok:
                    extra = {"inventory_of": s.name}
                    if name.endswith("builder-absent") or name.endswith("no-partial-impls"):
                        extra.update({"acc_declaration": p.decl_text() + f"\npub fn use_() {{ let _ = {s.name}::builder(); }}", "acc_expect": "reject"})
                    elif name.endswith("builder-present"):
                        extra.update({"acc_declaration": p.decl_text() + f"\npub fn use_() {{ let _ = {s.name}::builder(); }}", "acc_expect": "accept"})
                    failures.append((f"C14/inv/{p.pid}/{name}", detail, p, extra))
    uses = [u for p in progs for u in inv.builder_use_programs(p)]
    for u, ok, diag in inv.run_use_programs(work, "use", uses):
        ob = f"C14/use/{u.pid}/{u.what}"
        out.add_ob(ob, "must-compile" if u.expect else "must-not-compile", "rustc + real macro", ok)
        if len(out.samples) < 6:
            out.samples.append({"program": u.use, "expected": "compiles" if u.expect else "must not compile", "rustc": diag})
        if not ok:
            failures.append((ob, f"{u.what}: {diag}", u.base, {"acc_declaration": u.text(), "acc_expect": "accept" if u.expect else "reject",
                                                             "reproduced_by_compilation": True}))
    out.programs += len(progs) + len(uses)
    out.bounded.append(f"C14: inventory and type-state programs over {len(progs)} corpus declarations ({len(uses)} must/must-not-compile chains: "
                       "complete chain, every proper prefix, every chain with one step left out, swapped steps, builder() where none may exist)")
    _report_inv(out, "C14", failures)
    gen.add_obligations(out, "C14")
    return finish(out, "translation_validation", RUSTC_CMD + "; annotator inventory",
                  explanation="builder existence and exact mask chain from the inventory of the real expansion; type-state by programs that must / must not compile")


def check_c15(out: Outcome):
    allp = corpus.all_programs(out.tier, out.seed)
    if out.tier == "quick":
        keep = lambda p: not (p.pid.startswith("bd") and p.pid not in ("bd8", "bd24", "bd33", "bd128")) and p.pid != "all5" \
            and not p.pid.startswith("kselfov") and not p.pid.startswith("koverlaparr")
    else:
        keep = lambda p: not p.pid.startswith("kselfov") and not p.pid.startswith("koverlaparr") and p.pid not in ("all8", "all9")
    progs = [p for p in allp if keep(p)]
    work = os.path.join(xrun.WORK, "C15")
    os.makedirs(work, exist_ok=True)
    results, runtime, texts = constck.build_and_run(work, progs, out.seed)
    failures = []
    for name, (ok, detail) in sorted(results.items()):
        ob = f"C15/const/{name}"
        out.add_ob(ob, "const-eval", "rustc const evaluator on the real macro output vs spec.rs", ok)
        if len(out.samples) < 8 and ok and ("with_" in name or "builder" in name or "new_with" in name):
            out.samples.append({"obligation": ob, "text": texts.get(name, "")[:400]})
        if not ok:
            pid = name.split("/")[0]
            p = next(q for q in progs if q.pid == pid)
            failures.append((ob, f"{detail} -- {texts.get(name, '')[:200]}", p, {"const_item": texts.get(name)}))
    for prof, what in runtime["differs"]:
        ob = f"C15/runtime-vs-const/{what}/{prof}"
        out.add_ob(ob, "runtime-vs-const", "native run (black_box inputs) vs the const", False)
        pid = what.split("/")[0]
        p = next(q for q in progs if q.pid == pid)
        failures.append((ob, f"the run-time result differs from the compile-time constant ({prof} profile)", p, {}))
    out.add_ob("C15/runtime-vs-const/all", "runtime-vs-const", "native run (black_box inputs, debug+release) vs the consts",
               not runtime["differs"] and runtime["compared"] > 0 or bool(failures))
    out.programs += len(progs)
    out.extra["runtime_comparisons"] = runtime["compared"]
    out.extra["profiles_run"] = runtime["ran"]
    out.bounded.append(f"C15: {len(results)} const items over {len(progs)} corpus declarations, inputs = boundary patterns + VERIF_SEED-driven values; "
                       f"{runtime['compared']} run-time re-computations compared with the consts (debug + release)")
    items = []
    for ob, detail, p, extra in failures[:10]:
        # replay = the const item inside its declaration, compiled with the real macro
        text = p.decl_text() + "\n" + "".join(e.spec_fns() + e.from_discr_fn().replace("pub fn", "pub const fn") for e in p.enums)
        decl = "mod spec_ { include!(concat!(env!(\"CARGO_MANIFEST_DIR\"), \"/src/spec.rs\")); } use spec_::*;\n" + text + "\n" + (extra.get("const_item") or "")
        items.append({"obligation": ob, "detail": detail, "program_text": p.decl_text(), "verifier_output": {"rustc": detail}, "inputs": None, "src": None,
                      "extra": {"acc_declaration": decl, "acc_expect": "accept", "reproduced_by_compilation": True, "needs_spec": True}})
    report_violations_acc(out, items)
    if len(failures) > 10:
        out.extra["further_failed_obligations"] = [f[0] for f in failures[10:]]
    return finish(out, "other", "cargo build + cargo run (debug, release) of a generated crate using the real macro: const _: () = assert!(op == spec)",
                  explanation="const-evaluability and compile-time value of every generated operation are decided by rustc's const evaluator on sampled inputs "
                              "(no deductive verifier can decide const-evaluability); equality with the run-time result for ALL inputs is inherited from the "
                              "X proofs (run-time result == spec for all inputs, C01-C08/C13) plus determinism of safe integer const evaluation; "
                              "the same sampled operations are also recomputed natively in debug and release and compared with the consts")


def check_c19(out: Outcome):
    allp = corpus.all_programs(out.tier, out.seed)
    progs = [p for p in allp if "C19" in p.props or "C19n" in p.props]
    # deductive part: Debug::fmt through the real core::fmt writes exactly the required text, for ALL raw values ({:?})
    kprogs = [p for p in progs if "C19" in p.props and (out.tier == "thorough" or p.pid in QUICK_DEBUG_KANI)]
    run_x(out, kprogs, "C19", history=False, timeout_s=1500)
    out.bounded.append("C19 {:?}: Kani proof through the real core::fmt, loops unwound to the longest possible text + 3 with unwinding assertions (complete when they pass); "
                       "structs: " + ", ".join(p.pid for p in kprogs))
    # stand-in: {:#?} (and {:?}) by native execution of the real macro output, exhaustive over all raw values for bases <= 16 bits
    work = os.path.join(xrun.WORK, "C19")
    os.makedirs(work, exist_ok=True)
    plan, checked, mism, src = dbgck.run(work, progs, out.seed)
    items = []
    for p, s, n, exhaustive in plan:
        ob = f"C19/native/{p.pid}/{s.name}/{{:?}}+{{:#?}}/{'all raw values' if exhaustive else 'sampled raw values'}"
        ok = s.name in checked and s.name not in mism
        out.add_ob(ob, "debug-native", "native execution of the real macro output vs spec/dbgspec.rs (bounded stand-in)", ok)
        if not ok:
            one, _ = dbgck.gen([p], out.seed, only=s.name)
            items.append({"obligation": ob, "detail": (mism.get(s.name) or "did not run")[:600], "program_text": p.decl_text(),
                          "verifier_output": {"native": mism.get(s.name)}, "inputs": None, "src": None,
                          "extra": {"native_program": one, "reproduced_by_compilation": True}})
    out.extra["debug_texts_compared_natively"] = sum(n for n, _ in checked.values())
    out.bounded.append("C19 {:#?}: NOT proved (CBMC blows up in core::fmt's PadAdapter); stand-in = native execution for every raw value of bases <= 16 bits, "
                       "2000 seeded raw values plus boundary patterns (single bits, masks around native widths, each field at its extremes) otherwise: " + ", ".join(f"{k}: {v[0]} texts{' (exhaustive)' if v[1] else ''}" for k, v in checked.items()))
    report_violations_acc(out, items)
    return finish(out, "proof", driver_kani_cmd() + "; stand-in: cargo run --release of the native enumeration",
                  explanation="{:?} proved by Kani through the real core::fmt for all raw values; {:#?} covered by exhaustive native execution (stand-in)")


QUICK_DEBUG_KANI = ("dbg8", "dbg12", "dbgn", "surfd")


def driver_kani_cmd():
    return C_KANI + " with #[kani::unwind(text length + 3)] and unwinding assertions"
