"""Check driver: runs the engines that decide a property, prints verdict lines, writes evidence and replays."""
import json, os, re, sys, time, hashlib, shutil, subprocess
from . import xrun, contracts as C, corpus, replay as RP
from .model import *
from .xrun import Infra, VERIF, WORK

ASSUMPTIONS = [
    "rustc, Kani 0.68 (MIR->goto translation), CBMC 6.11, CaDiCaL, Verus 0.2026.09.13 and Z3 are trusted; Kani does not prove termination (all verified generated functions are loop-free)",
    "the dumped expansion equals the macro's output up to spans (TokenStream::to_string of the stream the macro returns, hook verif_hooks); replays use the real macro without hooks",
    "arbitrary-int 1.3.0 is inside the proofs (its real source is compiled by Kani) except that the UInt type invariant value<=MAX of symbolic INPUTS is assumed",
    "spec/spec.rs is the oracle for 'bits lo..=hi' / 'rewrite exactly the field'; its adequacy against the per-bit model (get_model/put_model of meta/prelude.rs) is proved in Verus on the same file; the per-bit model itself and spec/dbgspec.rs are read, not proved",
    "stage-2 properties are proved per generated program of the corpus; 'for every declaration' is approached by the layout-parametric template obligations (PT) and the corpus, the generator's control flow between templates is not under contract",
    "optimiser correctness and const-eval/run-time agreement for safe integer code",
    "stub_verified uses a function's contract only if its own proof_for_contract harness passes in the same run (enforced by the runner)",
]

TRUSTED = ["rustc", "kani-compiler 0.68.0", "CBMC 6.11.0 + CaDiCaL", "arbitrary-int UInt invariant on inputs", "spec/spec.rs"]


class Outcome:
    def __init__(self, prop, tier, seed):
        self.prop, self.tier, self.seed = prop, tier, seed
        self.obligations = []     # dicts: name, kind, backend, ok
        self.violations = []      # dicts: obligation, detail, replay, no_input
        self.notes = []
        self.samples = []
        self.functions = set()
        self.programs = 0
        self.solver_s = 0.0
        self.vccs = 0
        self.backends = {}
        self.bounded = []
        self.unsafe_tokens = 0
        self.not_under_contract = []
        self.extra = {}
        self.t0 = time.time()

    def add_ob(self, name, kind, backend, ok, detail=None):
        self.obligations.append({"name": name, "kind": kind, "backend": backend, "ok": bool(ok)})
        self.backends[backend] = self.backends.get(backend, 0) + 1


def load_known():
    p = os.path.join(VERIF, "known_findings.json")
    if os.path.exists(p):
        return json.load(open(p))
    return {"findings": [], "fixed": []}


def norm_ws(s):
    return re.sub(r"\s+", "", s or "")


def cbmc_property_name(goto, chk):
    """find CBMC's property id for a Kani check record"""
    rc, out = xrun.sh(["cbmc", "--show-properties", goto], timeout=120)
    want_desc = norm_ws(chk.get("description", ""))
    loc = chk.get("location") or {}
    blocks = re.split(r"\nProperty ", "\n" + out)
    best = None
    for b in blocks[1:]:
        head, _, rest = b.partition(":\n")
        m = re.search(r"file (\S+) line (\d+)(?: column (\d+))? function (.*)", rest)
        desc = norm_ws(rest)
        if want_desc and want_desc not in desc:
            continue
        score = 1
        if m:
            if str(loc.get("line")) == m.group(2):
                score += 1
            if m.group(3) and str(loc.get("column")) == m.group(3):
                score += 1
            if chk.get("function") and chk["function"] == m.group(4).strip():
                score += 2
        if best is None or score > best[0]:
            best = (score, head.strip())
    return best[1] if best else None


def cbmc_trace_inputs(goto, prop_name, timeout=300):
    cmd = ["cbmc", "--no-malloc-may-fail", "--no-undefined-shift-check", "--no-signed-overflow-check", "--nan-check",
           "--no-self-loops-to-assumptions", "--no-pointer-primitive-check", "--object-bits", "16", "--sat-solver", "cadical",
           "--trace", "--property", prop_name, goto]
    try:
        rc, out = xrun.sh(cmd, timeout=timeout)
    except subprocess.TimeoutExpired:
        return None, "cbmc --trace timed out"
    vals = {}
    for m in re.finditer(r"^\s+((?:in_|a\d)[A-Za-z0-9_]*)=(-?\d+|TRUE|FALSE)(?:[uUlL]*)\b", out, re.M):
        v = m.group(2)
        vals[m.group(1)] = 1 if v == "TRUE" else 0 if v == "FALSE" else int(v)
    if "VERIFICATION FAILED" not in out or not vals:
        return None, out[-1500:]
    return vals, None


def replay_path(prop, obligation):
    h = hashlib.sha1(obligation.encode()).hexdigest()[:10]
    d = os.path.join(VERIF, "replays")
    os.makedirs(d, exist_ok=True)
    return os.path.join(d, f"{prop}-{h}.json")


def report_violations(out: Outcome, items, kind="kani"):
    """items: dicts(obligation, detail, program_text, verifier_output, inputs, src, extra).  Runs all replays in one
    crate, writes one replay file per item and records the violations."""
    withsrc = [i for i in items if i.get("src")]
    runs_all = []
    if withsrc:
        try:
            runs_all = RP.run_sources([i["src"] for i in withsrc], tag="replay-" + out.prop)
        except Exception as ex:  # replay trouble never hides the violation
            runs_all = [[("error", None, str(ex))] for _ in withsrc]
    for i, runs in zip(withsrc, runs_all):
        i["runs"] = runs
    for i in items:
        runs = i.get("runs", [])
        reproduced = any(rc == 1 for _, rc, _ in runs)
        path = replay_path(out.prop, i["obligation"])
        rec = {"property": out.prop, "obligation": i["obligation"], "detail": i["detail"], "declaration": i.get("program_text"),
               "verifier_output": i.get("verifier_output"), "inputs": i.get("inputs"), "replay_program": i.get("src"),
               "replay_runs": [{"profile": a, "exit": b, "output": c} for a, b, c in runs],
               "reproduced_on_real_code": reproduced, "engine": kind}
        rec.update(i.get("extra") or {})
        with open(path, "w") as f:
            json.dump(rec, f, indent=1)
        out.violations.append({"obligation": i["obligation"], "detail": i["detail"], "replay": path,
                               "no_input": not reproduced, "inputs": i.get("inputs")})


def finish(out: Outcome, level, checker_cmd, explanation=None, extra_cov=None):
    """prints verdict lines, writes the evidence file, returns the exit code"""
    known = load_known()
    listed = [k for k in known.get("findings", []) if k["property"] == out.prop]
    new_viol = []
    for v in out.violations:
        hit = None
        for k in listed:
            if k["key"] in v["obligation"] or k["key"] in (v.get("detail") or ""):
                hit = k
        if hit:
            print(f"KNOWN-FINDING: property={out.prop} {hit['what']}")
        else:
            new_viol.append(v)
    # an obligation that fails exactly as a listed known finding is reported (KNOWN-FINDING line, evidence key below) and is
    # not part of the proof claim: it is neither counted as an obligation of this run nor as discharged
    known_keys = [k["key"] for k in listed]
    kf_obs = [o for o in out.obligations if not o["ok"] and any(k in o["name"] for k in known_keys)]
    out.obligations = [o for o in out.obligations if o not in kf_obs]
    standin = []
    if level == "proof":
        # a proof-level claim counts only obligations discharged by a deductive back end; bounded / syntactic stand-ins that ran in the
        # same check (bounded GEN harnesses, inventory comparison, native enumeration) are reported separately and never counted as proved
        def deductive(o):
            b = o["backend"]
            return (b.startswith("Kani") or b.startswith("Verus")) and o["kind"] not in ("gen-bounded",)
        standin = [o for o in out.obligations if not deductive(o)]
        out.obligations = [o for o in out.obligations if deductive(o)]
    n_ob = len(out.obligations)
    n_ok = sum(1 for o in out.obligations if o["ok"])
    cov = {
        "obligations": n_ob, "discharged": n_ok, "checker_cmd": checker_cmd, "trusted_base": TRUSTED,
        "programs": out.programs, "disagreements_checked": len(out.violations),
        "samples": out.samples[:12] or [o["name"] for o in out.obligations[:5]],
        "explanation": explanation or "",
        "functions_under_contract": sorted(out.functions)[:400],
        "functions_under_contract_count": len(out.functions),
        "obligations_by_backend": out.backends,
        "obligations_by_kind": _count(out.obligations, "kind"),
        "solver_time_s": round(out.solver_s, 3), "vccs_generated": out.vccs,
        "bounded_parts": out.bounded, "unsafe_tokens_in_expansions": out.unsafe_tokens,
        "emitted_but_not_under_contract": out.not_under_contract[:50],
        "evaluations": n_ob, "distinct_nontrivial": len({o["name"] for o in out.obligations}),
        "rule": "one obligation per (declaration, generated function or lemma, kind); distinct by name",
        "notes": out.notes,
    }
    if level == "proof":
        cov["standin_obligations"] = len(standin)
        cov["standin_discharged"] = sum(1 for o in standin if o["ok"])
        cov["standin_by_backend"] = _count(standin, "backend")
    cov.update(out.extra)
    if extra_cov:
        cov.update(extra_cov)
    ev = {"property_id": out.prop, "tier": out.tier, "seed": out.seed, "level": level, "coverage": cov,
          "assumptions": ASSUMPTIONS, "wall_s": round(time.time() - out.t0, 2), "violations": len(new_viol),
          "known_findings_reported": len(out.violations) - len(new_viol),
          "obligations_failing_as_known_findings": [o["name"] for o in kf_obs]}
    # evidence describes /repo; a run against a scratch copy (VERIF_REPO, used by the seed / harmless sweeps) keeps its file in its work dir
    scratch = os.environ.get("VERIF_REPO") not in (None, "", "/repo")
    evdir = os.path.join(xrun.WORK, "evidence") if scratch else os.path.join(VERIF, "evidence")
    os.makedirs(evdir, exist_ok=True)
    with open(os.path.join(evdir, f"{out.prop}.json"), "w") as f:
        json.dump(ev, f, indent=1)
    more = out.extra.get("further_failed_obligations") or []
    if more:
        print(f"[{out.prop}] plus {len(more)} further failed obligations (see evidence file), e.g. {more[0]}")
    for v in new_viol:
        tail = " no-failing-input-found" if v["no_input"] else ""
        print(f"VIOLATION property={out.prop} replay={v['replay']}{tail}")
        print(f"  obligation: {v['obligation']}")
        print(f"  {v['detail']}")
    print(f"[{out.prop}] {n_ok}/{n_ob} obligations discharged, {len(new_viol)} violation(s), "
          f"{len(out.violations) - len(new_viol)} known finding(s), {ev['wall_s']} s")
    if new_viol:
        return 1
    if n_ob == 0:
        print(f"[{out.prop}] no obligations were generated: broken check", file=sys.stderr)
        return 2
    if standin and not all(o["ok"] for o in standin) and not new_viol and not (len(out.violations) - len(new_viol)):
        print(f"[{out.prop}] a stand-in obligation failed without a recorded violation: broken check", file=sys.stderr)
        return 2
    return 0


def _count(items, key):
    d = {}
    for i in items:
        d[i[key]] = d.get(i[key], 0) + 1
    return d


# --------------------------------------------------------------------------------------------
# unit X

SAFE_ONLY = {"C16"}          # properties whose verdict counts only totality obligations


def relevant_failures(prop, h, fails):
    if prop in SAFE_ONLY:
        keep = []
        for c in fails:
            cls = xrun.classify_check(c) if "category" in c and c["category"] != "oob" else "oob"
            if cls in ("safe_overflow", "safe_panic", "oob", "other", "unwind", "ens_inv"):
                keep.append(c)
        return keep
    return fails


def run_x(out: Outcome, programs, prop, max_cex=8, nshards=None, timeout_s=600, history=True, collect_only=False, tag=None):
    """proves the X obligations of `prop` on `programs`; fills `out`"""
    work = os.path.join(WORK, tag or prop)
    os.makedirs(work, exist_ok=True)
    progs = [p for p in programs if prop in p.props]
    if not progs:
        return []
    dumps, errs = xrun.dump_expansions(work, progs)
    for pid, es in errs.items():
        out.notes.append(f"declaration group {pid} does not compile with the real macro: {es[0]['message'][:200]}")
    bad = set(errs.keys())
    if bad:
        # a rejected declaration group is C09's business (C09 compiles the whole corpus); so that one rejected field cannot hide
        # the others from THIS property, a rejected single-struct group is retried field by field
        split = []
        for p in progs:
            if p.pid in bad and len(p.structs) == 1 and len(p.structs[0].fields) > 1:
                st = p.structs[0]
                for k, f in enumerate(st.fields):
                    sub = Struct(f"{st.name}x{k}", st.base_bits, [f], default=None, debug=False)
                    split.append(Program(f"{p.pid}x{k}", enums=p.enums, structs=[sub], props=p.props, note=f"field {f.name} of rejected {p.pid}"))
        progs = [p for p in progs if p.pid not in bad] + split
        dumps, errs2 = xrun.dump_expansions(work, progs)
        bad2 = set(errs2.keys())
        if bad2 - {p.pid for p in split}:
            raise Infra("corpus still fails after removing failing groups: " + json.dumps(errs2)[:1500])
        if bad2:
            progs = [p for p in progs if p.pid not in bad2]
            dumps, errs3 = xrun.dump_expansions(work, progs)
            if errs3:
                raise Infra("corpus still fails after removing failing fields: " + json.dumps(errs3)[:1500])
        out.extra["declarations_rejected_by_rustc"] = sorted(bad | bad2)
        if split:
            out.notes.append(f"{len(split) - len(bad2)} fields of rejected declarations were verified one by one")
    xrun.bind_rawnames(progs, dumps)
    ann0 = xrun.annotate(work, progs, dumps, {})          # inventory only (no contracts) to learn what exists
    sel = {}
    missing_fn = []
    api_items = []
    if prop == "C06":
        from . import inv as INV
        bad_pids = set()
        for p in progs:
            for st in p.structs:
                if st.name not in ann0:
                    continue
                for name, ok, detail in INV.shell_obligations(st, ann0[st.name][1]):
                    ob = f"{prop}/api/{p.pid}/{name}"
                    out.add_ob(ob, "inventory", "annotator inventory of the real expansion vs. declaration table", ok)
                    if not ok:
                        bad_pids.add(p.pid)
                        api_items.append({"obligation": ob, "detail": detail, "program_text": p.decl_text(), "inputs": None, "src": None,
                                          "verifier_output": {"inventory": detail}})
        progs = [p for p in progs if p.pid not in bad_pids]
    if prop in ("C07", "C10"):
        from . import inv as INV
        bad_pids = set()
        for p in progs:
            for e in p.enums:
                if e.name not in ann0:
                    continue
                for name, ok, detail in INV.enum_obligations(e, ann0[e.name][1]):
                    ob = f"{prop}/api/{p.pid}/{name}"
                    out.add_ob(ob, "inventory", "annotator inventory of the real expansion vs. declaration table", ok)
                    if not ok:
                        bad_pids.add(p.pid)
                        api_items.append({"obligation": ob, "detail": detail, "program_text": p.decl_text(), "inputs": None, "src": None,
                                          "verifier_output": {"inventory": detail}})
        progs = [p for p in progs if p.pid not in bad_pids]   # their contracts would not even type-check
    for p in progs:
        hs = C.select(p, C.program_harnesses(p, want_history=history), prop)
        have = set()
        for t in [e.name for e in p.enums] + [s.name for s in p.structs]:
            if t in ann0:
                have |= xrun.inventory_fns(ann0[t][1])
                out.unsafe_tokens += ann0[t][1]["unsafe_tokens"]
        keep = []
        for h in hs:
            miss = [n for n in h.needs if tuple(n) not in have]
            if miss:
                missing_fn.append((h.name, miss))
            else:
                keep.append(h)
        sel[p.pid] = keep
    if missing_fn:
        out.notes.append(f"{len(missing_fn)} obligations could not be stated because the expansion lacks the function: "
                         + "; ".join(f"{a}: {b}" for a, b in missing_fn[:5]))
        out.extra["obligations_not_statable"] = [a for a, _ in missing_fn]
    # functions the expansion defines that no selected proof harness targets in this run (informational, never an alarm)
    targeted = {C._canon_target(h.target) for hs_ in sel.values() for h in hs_ if h.target}
    for p in progs:
        for t in [e.name for e in p.enums] + [s.name for s in p.structs]:
            if t in ann0:
                for (ity, fn) in sorted(xrun.inventory_fns(ann0[t][1])):
                    if (ity, fn) not in targeted and len(out.not_under_contract) < 200:
                        out.not_under_contract.append(f"{p.mod}::{ity}::{fn}")
    ann = xrun.annotate(work, progs, dumps, sel)
    for t, (_, inv) in ann.items():
        if inv["unmatched_contracts"]:
            raise Infra(f"contracts could not be attached in {t}: {inv['unmatched_contracts'][:3]}")
    if api_items and not collect_only:
        report_violations(out, api_items[:6], kind="inv")
    n = sum(len(v) for v in sel.values())
    if n == 0:
        return []
    if nshards is None:
        nshards = max(1, min(8, n // 40))
    crates = xrun.build_kani_crates(work, progs, ann, sel, nshards, plain=ann0)
    # a set_x proof that uses with_x's contract as a stub (delegating setters, xrun.bind_rawnames) needs ~4.4 GB of CBMC memory per
    # harness (measured); 16 of them at once exhaust this machine's 62 GB, so the parallelism is halved when such harnesses exist
    deleg = any(getattr(f, "set_calls_with", False) for p in progs for st in p.structs for f in st.fields)
    res, meta = xrun.run_kani(crates, jobs_total=(max(1, xrun.NCPU // 2) if deleg else xrun.NCPU), timeout_s=timeout_s)
    if deleg:
        out.notes.append("in-place setters delegate to with_x on this tree: proved against with_x's verified contract (stub_verified), at half the parallelism (memory)")
    out.solver_s += meta["solver_s"]
    out.vccs += meta["vccs"]
    out.programs += len(progs)
    byname = {h.name: (p, h) for p in progs for h in sel[p.pid]}
    # a contract may only be used as a stub if its own proof passed in this run (or is planned elsewhere)
    slow = sorted(((res[n].get("duration_ms") or 0, n) for n in byname), reverse=True)[:5]
    out.extra.setdefault("slowest_harnesses_ms", [])
    out.extra["slowest_harnesses_ms"] += [[n, d] for d, n in slow]
    failures = []
    for name, (p, h) in byname.items():
        r = res[name]
        if not r["checks"]:
            # no property result at all: the harness hit its time limit or the tool died -- undecided, never a violation
            raise Infra(f"harness {name} produced no check results (status {r['status']}, harness time limit {timeout_s}s?), not a violation")
        ok, fails, vac = xrun.judge(h, r)
        fails = relevant_failures(prop, h, fails)
        if prop in SAFE_ONLY:
            ok = not fails
        obname = f"{prop}/{p.pid}/{name}/{h.kind}"
        if vac and h.expect != "panic" and ok:
            # (a failed obligation cuts the path before the cover, so vacuity is only meaningful when nothing failed)
            raise Infra(f"vacuous harness {name}: its cover!(true) is not satisfiable (contradictory precondition?)")
        if any(c.get("undetermined") for c in fails):
            raise Infra(f"harness {name} undetermined (solver limit), not a violation")
        out.add_ob(obname, h.kind, "Kani/CBMC+CaDiCaL", ok)
        if h.target:
            out.functions.add(f"{p.mod}::{h.target}")
        if len(out.samples) < 10 and h.kind in ("get", "with", "set", "step", "enum_new", "chain", "oob_get", "rb", "commute"):
            out.samples.append({"obligation": obname, "harness": h.text().strip()[:600]})
        if not ok:
            failures.append((obname, p, h, r, fails))
    failures.sort(key=lambda t: t[0])
    head, rest = failures[:max_cex], failures[max_cex:]

    def cex(t):
        obname, p, h, r, fails = t
        c = fails[0]
        inputs, err = None, None
        goto = r.get("goto") or ""
        if goto.endswith(".symtab.out"):
            goto = goto[:-len(".symtab.out")] + ".out"
        if not h.inputs:
            return {}, None          # an obligation without inputs (constants, builder()): the replay needs no counterexample
        if not os.path.exists(goto):
            return None, "goto binary not found"
        target = c
        if h.expect == "panic" and c.get("category") == "oob" and "no explicit panic" in c.get("description", ""):
            # with overflow checks on, every out-of-range index dies in an overflow check, so CBMC has no returning trace;
            # the smallest out-of-range index is tried on the real code in both profiles instead (input not from the verifier)
            return {"in_raw": 0, "in_index": h.fld.count, "in_val_v": 0, "_synthesised": 1}, None
        if h.expect == "panic" and c.get("category") == "oob":
            cov = [cc for cc in r["checks"] if cc.get("category") == "cover" and "returned" in cc.get("description", "")]
            if not cov:
                return None, "no cover record"
            target = cov[0]
        pname = cbmc_property_name(goto, target)
        if not pname:
            return None, "CBMC property for the failed check not found"
        return cbmc_trace_inputs(goto, pname, timeout=60 if h.kind == "debug" else 300)

    from concurrent.futures import ThreadPoolExecutor
    with ThreadPoolExecutor(max_workers=8) as ex:
        cexs = list(ex.map(cex, head))
    items = []
    for (obname, p, h, r, fails), (inputs, err) in zip(head, cexs):
        c = fails[0]
        vo = {"failed_checks": [{k: c2.get(k) for k in ("function", "description", "category", "location", "note")} for c2 in fails[:6]],
              "harness": h.text()}
        if inputs is None:
            vo["trace_error"] = err
            # the verifier gave no usable trace (e.g. cbmc --trace timed out on a formatting proof): try the real code on a guessed
            # input; if that reproduces, the replay stands, marked as synthesised (not the verifier's counterexample)
            if h.struct is not None and h.inputs:
                full = (1 << h.struct.base_bits) - 1
                inputs = {"in_raw": full & int("A5" * 16, 16), "in_index": 0, "in_val_v": 1, "in_val": 1, "_synthesised": 1}
        src = RP.program_source(p, h, inputs) if inputs is not None else None
        items.append({"obligation": obname, "detail": f"{c.get('function')}: {norm_ws(c.get('description', ''))[:300]}",
                      "program_text": p.decl_text(), "verifier_output": vo, "inputs": inputs, "src": src})
    if collect_only:
        for cdir, _ in crates:
            shutil.rmtree(os.path.join(cdir, "target"), ignore_errors=True)
        for t in rest:
            items.append({"obligation": t[0], "detail": "further failed obligation", "program_text": t[1].decl_text(), "inputs": None, "src": None})
        return items
    report_violations(out, items)
    if rest:
        out.extra["further_failed_obligations"] = [t[0] for t in rest]
        out.notes.append(f"{len(rest)} further failed obligations of the same run are listed under further_failed_obligations "
                         f"(counterexamples are extracted for the first {max_cex})")
    # clean the bulky build output
    for cdir, _ in crates:
        shutil.rmtree(os.path.join(cdir, "target"), ignore_errors=True)
    return []


