"""Unbounded Verus proof of a REAL generator function: `ranges_have_self_overlap` (bitbybit/src/bitfield/codegen.rs).

The function text is cut out of /repo's working tree on every run (from `fn ranges_have_self_overlap(` to its matching
brace) and Verus clauses are inserted at anchors given as regular expressions over that text.  Changed text, stated
exactly: the return type `-> bool` becomes `-> (r: bool)` and `for range in ranges` becomes `for range in it: ranges`
(Verus' syntax to name the loop's ghost iterator); everything else is ADDED (requires/ensures, loop invariants, ghost
lets, proof blocks).  If an anchor does not match (the function was rewritten), the obligation is UNDECIDED in this run
and the bounded GEN harnesses stay the only evidence -- a lost anchor is never a violation."""
import os, re, json
from . import xrun, meta
from .xrun import Infra

S = "array_stride as int"
RS = "ranges@"
I = "i as int"

INSERTIONS = [
    # (regex, replacement, description)
    (r"\)\s*->\s*bool\s*\{",
     f""") -> (r: bool)
    requires pre({RS}, {S}, array_length as int), array_stride <= 128, array_length <= 128,
    ensures r == exists|e: int, j: int| 0 <= e < array_length && 0 <= j < {RS}.len() && hit({RS}, {S}, e, j)
{{""", "signature"),
    (r"(let\s+mut\s+mask\s*=\s*[^;]*;)",
     r"\1" + f"""
    proof {{ assert forall|k: int| 0 <= k < 128 implies bit(mask, k) == cov_e({RS}, {S}, 0, k) by {{ lemma_zero(k as u128); }} }}""", "mask init"),
    (r"for\s+i\s+in\s+([^{]*?)\s*\{",
     r"for i in \1" + f"""
        invariant
            pre({RS}, {S}, array_length as int), array_stride <= 128, array_length <= 128,
            forall|k: int| 0 <= k < 128 ==> bit(mask, k) == cov_e({RS}, {S}, {I}, k),
            forall|e: int, j: int| 0 <= e < i && 0 <= j < {RS}.len() ==> !hit({RS}, {S}, e, j),
    {{""", "outer loop"),
    (r"for\s+range\s+in\s+ranges\s*\{",
     f"""for range in it: ranges
            invariant
                pre({RS}, {S}, array_length as int), array_stride <= 128, array_length <= 128, i < array_length,
                forall|k: int| 0 <= k < 128 ==> bit(mask, k) == covered({RS}, {S}, {I}, it.index@, k),
                forall|e: int, j: int| 0 <= e < i && 0 <= j < {RS}.len() ==> !hit({RS}, {S}, e, j),
                forall|j: int| 0 <= j < it.index@ ==> !hit({RS}, {S}, {I}, j),
        {{
            let ghost jj = it.index@;
            assert(*range == {RS}[jj]);
            assert(i as int * array_stride as int <= (array_length as int - 1) * array_stride as int) by (nonlinear_arith)
                requires i < array_length, array_stride >= 0;
            proof {{ lemma_shl_pos((range.end - range.start) as u128); }}""", "inner loop"),
    (r"(let\s+bits\s*=\s*[^;]*;)",
     r"\1" + f"""
            proof {{
                let n = (range.end - range.start) as u128;
                let lo = (range.start + i * array_stride) as u128;
                assert forall|k: int| 0 <= k < 128 implies bit(bits, k) == in_iv({RS}, {S}, {I}, jj, k) by {{
                    lemma_mask_bits(n, lo, k as u128);
                }}
            }}""", "bits"),
    (r"(if\s+[^{]*\{)(\s*return\s+[^;]*;\s*\})",
     r"\1" + f"""
                proof {{
                    let z = bits & mask;
                    let k = lemma_exists_bit(z, 128);
                    lemma_and_bits(bits, mask, k as u128);
                    assert(bit(bits, k));
                    assert(bit(mask, k));
                    assert(in_iv({RS}, {S}, {I}, jj, k) && covered({RS}, {S}, {I}, jj, k));
                    assert(hit({RS}, {S}, {I}, jj));
                }}""" + r"\2" + f"""
            proof {{
                assert(!hit({RS}, {S}, {I}, jj)) by {{
                    if hit({RS}, {S}, {I}, jj) {{
                        let k = choose|k: int| 0 <= k < 128 && in_iv({RS}, {S}, {I}, jj, k) && covered({RS}, {S}, {I}, jj, k);
                        assert(bit(bits, k));
                        assert(bit(mask, k));
                        lemma_and_witness(bits, mask, k as u128);
                    }}
                }}
            }}
            let ghost old_mask = mask;""", "early return"),
    (r"(mask\s*(?:\|=|=)\s*[^;]*;)(?=\s*\})",
     r"\1" + f"""
            proof {{
                assert forall|k: int| 0 <= k < 128 implies bit(mask, k) == covered({RS}, {S}, {I}, jj + 1, k) by {{
                    lemma_or(old_mask, bits, k as u128);
                    assert(bit(old_mask, k) == covered({RS}, {S}, {I}, jj, k));
                    assert(bit(bits, k) == in_iv({RS}, {S}, {I}, jj, k));
                    assert(cov_r({RS}, {S}, {I}, jj + 1, k) == (in_iv({RS}, {S}, {I}, jj, k) || cov_r({RS}, {S}, {I}, jj, k)));
                }}
            }}""", "mask update"),
]


def extract_fn(src, name):
    m = re.search(r"\bfn\s+" + name + r"\s*\(", src)
    if not m:
        return None
    i = src.index("{", m.end())
    depth, k = 0, i
    while k < len(src):
        c = src[k]
        if c == "{":
            depth += 1
        elif c == "}":
            depth -= 1
            if depth == 0:
                return src[m.start():k + 1]
        k += 1
    return None


def assemble():
    """returns (verus file text, None) or (None, reason)"""
    path = os.path.join(xrun.REPO, "bitbybit", "src", "bitfield", "codegen.rs")
    if not os.path.exists(path):
        return None, "codegen.rs not found"
    fn = extract_fn(open(path).read(), "ranges_have_self_overlap")
    if fn is None:
        return None, "fn ranges_have_self_overlap not found"
    fn = re.sub(r"//[^\n]*", "", fn)
    for rx, rep, what in INSERTIONS:
        fn, n = re.subn(rx, rep, fn, count=1)
        if n != 1:
            return None, f"anchor lost: {what}"
    pre = open(os.path.join(xrun.VERIF, "meta", "prelude.rs")).read()
    so = open(os.path.join(xrun.VERIF, "meta", "selfoverlap_prelude.rs")).read()
    # only the bit model and the bit lemmas of prelude.rs are needed
    text = ("use vstd::prelude::*;\nuse std::ops::Range;\nverus! {\n" + pre + "\n" + so + "\n" + fn + "\n} // verus!\nfn main() {}\n")
    return text, None


def run(work):
    """returns dict(status='proved'|'failed'|'undecided', detail, ms)"""
    text, why = assemble()
    if text is None:
        return {"status": "undecided", "detail": why}
    os.makedirs(work, exist_ok=True)
    path = os.path.join(work, "selfoverlap.rs")
    xrun.write(path, text)
    rc, out = xrun.sh(["verus", path, "--triggers-mode", "silent", "--output-json", "--time"], cwd=work, timeout=1200)
    m = re.search(r"^\{\s*$", out, re.M)
    try:
        d = json.loads(out[m.start():out.rindex("}") + 1])
    except Exception:
        return {"status": "undecided", "detail": "verus output not parseable: " + out[-800:]}
    vr = d.get("verification-results", {})
    funcs = {}
    for mod in d.get("times-ms", {}).get("smt", {}).get("smt-run-module-times", []):
        for f in mod.get("function-breakdown", []):
            funcs[f["function"].split("::")[-1]] = f
    f = funcs.get("ranges_have_self_overlap")
    if vr.get("encountered-vir-error") or (vr.get("encountered-error") and not vr.get("errors")) or f is None:
        # the annotated text is not accepted by Verus at all (new construct, type error in a clause): undecided
        return {"status": "undecided", "detail": "verus could not process the annotated function: " + out[:1200]}
    others_ok = all(x.get("success") for n, x in funcs.items() if n != "ranges_have_self_overlap")
    if not others_ok:
        return {"status": "undecided", "detail": "a supporting lemma failed (machinery defect)"}
    return {"status": "proved" if f.get("success") else "failed", "detail": out[:3000] if not f.get("success") else "",
            "ms": f.get("time", 0), "verified": vr.get("verified")}
