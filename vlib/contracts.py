"""Contracts and proof harnesses for a Program, generated from the declaration table only.

Contract attribute text uses the annotator's placeholders:
  $SELFRAW  self.<raw field of the impl's struct>      $RAW  <raw field path>     $RAWOF(T) raw field path of struct T
  $ARG0..   names of the non-self parameters as found in the parsed expansion
"""
import re
from .model import *

# which properties a harness kind can serve
KIND_PROPS = {
    "get": {"C09", "C01", "C03", "C04", "C05", "C08", "C11", "C12", "C16", "C17"},
    "with": {"C09", "C02", "C03", "C04", "C05", "C08", "C11", "C12", "C16", "C17"},
    "set": {"C09", "C02", "C03", "C04", "C05", "C08", "C11", "C12", "C16", "C17"},
    "setwith": {"C02", "C03", "C04", "C05", "C08"},
    "oob_get": {"C09", "C03", "C16", "C11"},
    "oob_with": {"C09", "C03", "C16", "C11"},
    "oob_set": {"C09", "C03", "C16", "C11"},
    "ctor": {"C09", "C01", "C06", "C11", "C16"},
    "raw": {"C09", "C06", "C11", "C16"},
    "consts": {"C06"},
    "rt": {"C06", "C11"},
    "rb": {"C02", "C03", "C04", "C05", "C08"},
    "commute": {"C12"},
    "alias": {"C12"},
    "overwrite": {"C12"},
    "builder": {"C13", "C11", "C16"},
    "step": {"C13", "C11", "C16"},
    "build": {"C13", "C16"},
    "chain": {"C13"},
    "enum_raw": {"C10x", "C07", "C10", "C16"},
    "enum_new": {"C10x", "C07", "C10", "C16"},
    "enum_rt": {"C07"},
    "debug": {"C19"},
}

FIELD_FILTER = {
    "C01": lambda f: f.contiguous and f.array is None and f.ty.kind in ("bool", "uint", "native"),
    "C02": lambda f: f.contiguous and f.array is None and f.ty.kind in ("bool", "uint", "native"),
    "C03": lambda f: f.array is not None,
    "C04": lambda f: not f.contiguous,
    "C05": lambda f: f.ty.kind == "signed",
    "C08": lambda f: f.ty.kind in ("enum", "optenum", "nested"),
}


def inv_expr(s: Struct, raw_expr: str):
    if s.arbitrary_base:
        return f"fits({raw_expr} as u128, {s.base_bits})"
    return "true"


def value_valid(ty: FT, x: str):
    """extra validity of a field value that the type system does not carry"""
    if ty.kind == "nested" and ty.ref.arbitrary_base:
        return f"fits({x}.{ty.ref.rawname} as u128, {ty.ref.base_bits})"
    return None


def canon_partial(s: Struct, mask: int):
    return f"{s.pname}<{mask}>"


def partial_ty(s: Struct, mask: int):
    return f"{s.pname}<{hex(mask)}>"


def partial_path(s: Struct, mask: int):
    return f"{s.pname}::<{hex(mask)}>"


def conj(*xs):
    xs = [x for x in xs if x and x != "true"]
    return " && ".join(xs) if xs else "true"


def enum_contracts(e: Enum):
    out = []
    if e.raw_is_native:
        rv = "((*r) as u128)"
        val = "($ARG0 as u128)"
        rty = f"u{e.bits}"
    else:
        rv = "(r.value() as u128)"
        val = "($ARG0.value() as u128)"
        rty = f"u{e.bits}"
    out.append({"impl": e.name, "trait": None, "fn": "raw_value",
                "attrs": [f"kani::ensures(|r: &{rty}| {rv} == discr_{e.name}(self))"]})
    if e.is_exhaustive:
        post = f"|r: &{e.name}| discr_{e.name}(*r) == {val}"
    else:
        post = (f"|r: &Result<{e.name}, {e.holder}>| match r {{ Ok(v_) => discr_{e.name}(*v_) == {val}, "
                f"Err(e_) => ((*e_) as u128) == {val} && !is_discr_{e.name}({val}) }}")
    out.append({"impl": e.name, "trait": None, "fn": "new_with_raw_value", "attrs": [f"kani::ensures({post})"]})
    return out


def struct_contracts(s: Struct, with_builder=True):
    """list of contract records for the annotator"""
    S = s.name
    out = []
    N = s.base_bits
    if s.arbitrary_base:
        out.append({"impl": S, "trait": None, "fn": "new_with_raw_value", "attrs": [
            f"kani::ensures(|r: &{S}| (r.$RAW as u128) == ($ARG0.value() as u128) && fits(r.$RAW as u128, {N}))"]})
        out.append({"impl": S, "trait": None, "fn": "raw_value", "attrs": [
            f"kani::requires(fits($SELFRAW as u128, {N}))",
            f"kani::ensures(|r: &{s.base_ty}| (r.value() as u128) == ($SELFRAW as u128))"]})
    else:
        out.append({"impl": S, "trait": None, "fn": "new_with_raw_value", "attrs": [
            f"kani::ensures(|r: &{S}| r.$RAW == $ARG0)"]})
        out.append({"impl": S, "trait": None, "fn": "raw_value", "attrs": [
            f"kani::ensures(|r: &{s.base_ty}| (*r) == $SELFRAW)"]})
    for f in s.fields:
        idx = "$ARG0" if f.array else None
        val = "$ARG1" if f.array else "$ARG0"
        shift = f"({idx} * {f.stride})" if f.array else "0"
        bound = f"{idx} < {f.count}" if f.array else None
        inv_self = inv_expr(s, "$SELFRAW")
        if f.readable and not f.name.startswith("r#"):
            bits = f"get_spec($SELFRAW as u128, {f.ranges_lit()}, {shift})"
            out.append({"impl": S, "trait": None, "fn": f.name, "attrs": [
                f"kani::requires({conj(inv_self, bound)})",
                f"kani::ensures(|r: &{f.ty.getter_ty()}| {f.ty.result_pred('r', bits)})"]})
        if f.writable:
            pre = conj(inv_self, bound, value_valid(f.ty, val))
            new = f"put_spec($SELFRAW as u128, {f.ranges_lit()}, {shift}, {f.ty.view(val)})"
            inv_post = [f"kani::ensures(|r: &{S}| {inv_expr(s, 'r.$RAW')})"] if s.arbitrary_base else []
            out.append({"impl": S, "trait": None, "fn": f"with_{f.base}", "attrs": [
                f"kani::requires({pre})"] + inv_post + [
                f"kani::ensures(|r: &{S}| (r.$RAW as u128) == {new})"]})
            newo = f"put_spec(old($SELFRAW) as u128, {f.ranges_lit()}, {shift}, {f.ty.view(val)})"
            # (two ensures clauses on a `&mut self` function do not borrow-check in Kani's expansion: set_ keeps one conjunction;
            #  with_ above carries the invariant as a clause of its own so that C16 can tell it from the value equation)
            out.append({"impl": S, "trait": None, "fn": f"set_{f.base}", "attrs": [
                f"kani::requires({pre})",
                "kani::modifies(self)",
                f"kani::ensures(|_r| {conj(inv_self, f'($SELFRAW as u128) == {newo}')})"]})
    if with_builder and s.builder_expected():
        P = s.pname
        out.append({"impl": S, "trait": None, "fn": "builder", "attrs": [
            f"kani::ensures(|r: &{partial_ty(s, 0)}| (r.$RAWOF({P}) as u128) == {hex(s.start_value())}u128)"]})
        chain = s.mask_chain()
        for f, m0, m1 in chain:
            acc = "$SELFRAW as u128"
            if f.array:
                for i in range(f.count):
                    acc = f"put_spec({acc}, {f.ranges_lit()}, {i * f.stride}, {f.ty.view(f'$ARG0[{i}]')})"
                vv = conj(*[value_valid(f.ty, f"$ARG0[{i}]") for i in range(f.count)])
            else:
                acc = f"put_spec({acc}, {f.ranges_lit()}, 0, {f.ty.view('$ARG0')})"
                vv = value_valid(f.ty, "$ARG0")
            out.append({"impl": canon_partial(s, m0), "trait": None, "fn": f"with_{f.base}", "attrs": [
                f"kani::requires({conj(inv_expr(s, '$SELFRAW'), vv)})",
                f"kani::ensures(|r: &{partial_ty(s, m1)}| {conj(inv_expr(s, 'r.$RAW'), f'(r.$RAW as u128) == {acc}')})"]})
        final = chain[-1][2] if chain else 0
        out.append({"impl": canon_partial(s, final), "trait": None, "fn": "build", "attrs": [
            f"kani::ensures(|r: &{S}| r.$RAWOF({S}) == $SELFRAW)"]})
    return out


class H:
    """a proof harness"""

    def __init__(self, name, kind, target, body, attrs, struct=None, fld=None, inputs=(), expect="success", enum=None,
                 needs=()):
        self.name, self.kind, self.target, self.body, self.attrs = name, kind, target, body, attrs
        self.struct, self.fld, self.inputs, self.expect, self.enum = struct, fld, inputs, expect, enum
        self.needs = tuple(needs)  # (impl, fn) pairs that must exist in the expansion
        self.stubs = [m.group(1) for a in attrs for m in re.finditer(r"stub_verified\(([^)]*)\)", a)]

    def text(self):
        a = " ".join(self.attrs)
        return f"    {a}\n    fn {self.name}() {{ {self.body} }}\n"


def any_struct(s: Struct, var, mut=False):
    m = "mut " if mut else ""
    return f"let {m}{var}: {s.name} = kani::any(); let in_raw = {var}.{s.rawname};"


def arbitrary_impl_struct(s: Struct):
    out = (f"impl kani::Arbitrary for {s.name} {{ fn any() -> Self {{ let r_: {s.sty} = kani::any(); "
           f"kani::assume({inv_expr(s, 'r_')}); {s.name} {{ {s.rawname}: r_ }} }} }}\n")
    return out


def arbitrary_impl_partial(s: Struct):
    return (f"impl<const M: {s.sty}> kani::Arbitrary for {s.pname}<M> {{ fn any() -> Self {{ "
            f"{s.pname}(kani::any()) }} }}\n")


def enum_harnesses(p: Program, e: Enum):
    hs = []
    E = e.name
    pre = f"h_{p.pid}_{E}"
    hs.append(H(f"{pre}_raw", "enum_raw", f"{E}::raw_value",
                f"let in_val: {E} = kani::any(); let in_val_v: u128 = discr_{E}(in_val); let _r = in_val.raw_value(); kani::cover!(true);",
                [f"#[kani::proof_for_contract({E}::raw_value)]"], enum=e, inputs=("in_val_v",), needs=[(E, "raw_value")]))
    h = e.holder
    if e.raw_is_native:
        mk = f"let in_val: {h} = kani::any(); let x_ = in_val;"
    else:
        mk = (f"let in_val: {h} = kani::any(); kani::assume((in_val as u128) < (1u128 << {e.bits})); "
              f"let x_ = u{e.bits}::new(in_val);")
    hs.append(H(f"{pre}_new", "enum_new", f"{E}::new_with_raw_value",
                f"{mk} let _r = {E}::new_with_raw_value(x_); kani::cover!(true);",
                [f"#[kani::proof_for_contract({E}::new_with_raw_value)]"], enum=e, inputs=("in_val",),
                needs=[(E, "new_with_raw_value")]))
    # round trips, inline
    rv = "r_" if e.raw_is_native else "r_.value()"
    if e.is_exhaustive:
        back = f"let b_ = {E}::new_with_raw_value(x_); let r_ = b_.raw_value(); assert!(({rv} as u128) == (in_val as u128));"
        fwd = f"let v_: {E} = kani::any(); let w_ = {E}::new_with_raw_value(v_.raw_value()); assert!(discr_{E}(w_) == discr_{E}(v_));"
    else:
        back = (f"match {E}::new_with_raw_value(x_) {{ Ok(b_) => {{ let r_ = b_.raw_value(); assert!(({rv} as u128) == (in_val as u128)); }} "
                f"Err(e_) => {{ assert!((e_ as u128) == (in_val as u128)); }} }}")
        fwd = (f"let v_: {E} = kani::any(); match {E}::new_with_raw_value(v_.raw_value()) {{ Ok(w_) => assert!(discr_{E}(w_) == discr_{E}(v_)), "
               f"Err(_) => assert!(false) }}")
    hs.append(H(f"{pre}_rt", "enum_rt", None, f"{mk} {back} {fwd} kani::cover!(true);", ["#[kani::proof]"], enum=e,
                inputs=("in_val",), needs=[(E, "raw_value"), (E, "new_with_raw_value")]))
    return hs


def struct_harnesses(p: Program, s: Struct):
    hs = []
    S = s.name
    pre = f"h_{p.pid}_{S}"
    R = s.rawname
    # constructor and raw_value
    if s.arbitrary_base:
        mkbase = (f"let in_val: {s.sty} = kani::any(); kani::assume(fits(in_val as u128, {s.base_bits})); "
                  f"let x_ = {s.base_ty}::new(in_val);")
        back = "r_.value()"
    else:
        mkbase = f"let in_val: {s.sty} = kani::any(); let x_ = in_val;"
        back = "r_"
    hs.append(H(f"{pre}_ctor", "ctor", f"{S}::new_with_raw_value", f"{mkbase} let _r = {S}::new_with_raw_value(x_); kani::cover!(true);",
                [f"#[kani::proof_for_contract({S}::new_with_raw_value)]"], struct=s, inputs=("in_val",),
                needs=[(S, "new_with_raw_value")]))
    hs.append(H(f"{pre}_raw", "raw", f"{S}::raw_value", f"{any_struct(s, 's_')} let _r = s_.raw_value(); kani::cover!(true);",
                [f"#[kani::proof_for_contract({S}::raw_value)]"], struct=s, inputs=("in_raw",), needs=[(S, "raw_value")]))
    hs.append(H(f"{pre}_rt", "rt", None,
                f"{mkbase} let r_ = {S}::new_with_raw_value(x_).raw_value(); assert!(({back} as u128) == (in_val as u128)); "
                f"{any_struct(s, 's_')} let t_ = {S}::new_with_raw_value(s_.raw_value()); assert!(t_.{R} == s_.{R}); kani::cover!(true);",
                ["#[kani::proof]"], struct=s, inputs=("in_val", "in_raw"),
                needs=[(S, "raw_value"), (S, "new_with_raw_value")]))
    # constants and layout
    body = (f"fn is_copy_<T: Copy>() {{}} is_copy_::<{S}>(); assert!({S}::ZERO.{R} == 0); "
            f"assert!(core::mem::size_of::<{S}>() == {s.storage // 8}); "
            f"assert!(core::mem::align_of::<{S}>() == core::mem::align_of::<{s.sty}>()); ")
    if s.default is not None:
        d = hex(s.default.value)
        body += (f"assert!({S}::DEFAULT.{R} == {d}); assert!({S}::new().{R} == {d}); "
                 f"assert!(<{S} as Default>::default().{R} == {d}); ")
    hs.append(H(f"{pre}_consts", "consts", None, body + "kani::cover!(true);", ["#[kani::proof]"], struct=s))

    for f in s.fields:
        fn = f.name
        fb = f.base
        idx_decl = "let in_index: usize = kani::any();" if f.array else ""
        idx_arg = "in_index, " if f.array else ""
        idx_only = "in_index" if f.array else ""
        shift = f"(in_index * {f.stride})" if f.array else "0"
        if f.readable and fn.startswith("r#"):
            # Kani's contract macros cannot name a raw identifier (`__kani_replace_r#type` is not an identifier): the getter's
            # postcondition is asserted in a loop-free full-domain harness instead (complete proof, not reusable as a stub)
            b0 = f"kani::assume(in_index < {f.count});" if f.array else ""
            bits = f"get_spec(in_raw as u128, {f.ranges_lit()}, {shift})"
            hs.append(H(f"{pre}_{fb}_get", "get", None,
                        f"{any_struct(s, 's_')} {idx_decl} {b0} let r_ = s_.{fn}({idx_only}); assert!({f.ty.result_pred('(&r_)', bits)}); kani::cover!(true);",
                        ["#[kani::proof]"], struct=s, fld=f, inputs=("in_raw",) + (("in_index",) if f.array else ()), needs=[(S, fn)]))
        elif f.readable:
            hs.append(H(f"{pre}_{fb}_get", "get", f"{S}::{fn}",
                        f"{any_struct(s, 's_')} {idx_decl} let _r = s_.{fn}({idx_only}); kani::cover!(true);",
                        [f"#[kani::proof_for_contract({S}::{fn})]"], struct=s, fld=f,
                        inputs=("in_raw",) + (("in_index",) if f.array else ()), needs=[(S, fn)]))
            if f.array:
                hs.append(H(f"{pre}_{fb}_oob_get", "oob_get", None,
                            f"{any_struct(s, 's_')} {idx_decl} kani::assume(in_index >= {f.count}); let _r = s_.{fn}(in_index); "
                            f"kani::cover!(true, \"returned\");",
                            ["#[kani::proof]", "#[kani::should_panic]"], struct=s, fld=f, inputs=("in_raw", "in_index"),
                            expect="panic", needs=[(S, fn)]))
        if f.writable:
            anyv = f.ty.any_value("in_val")
            vv = value_valid(f.ty, "in_val")
            assume_v = f"kani::assume({vv});" if vv else ""
            ins = ("in_raw",) + (("in_index",) if f.array else ()) + ("in_val_v",)
            hs.append(H(f"{pre}_{fb}_with", "with", f"{S}::with_{fb}",
                        f"{any_struct(s, 's_')} {idx_decl} {anyv} let _r = s_.with_{fb}({idx_arg}in_val); kani::cover!(true);",
                        [f"#[kani::proof_for_contract({S}::with_{fb})]"], struct=s, fld=f, inputs=ins, needs=[(S, f"with_{fb}")]))
            heavy = False   # (kept for reference) see DESIGN.md: callee contracts are detached instead
            if not heavy:
                deleg = getattr(f, "set_calls_with", False)
                hs.append(H(f"{pre}_{fb}_set", "set", f"{S}::set_{fb}",
                            f"{any_struct(s, 's_', True)} {idx_decl} {anyv} s_.set_{fb}({idx_arg}in_val); kani::cover!(true);",
                            [f"#[kani::proof_for_contract({S}::set_{fb})]"] + ([f"#[kani::stub_verified({S}::with_{fb})]"] if deleg else []),
                            struct=s, fld=f, inputs=ins, needs=[(S, f"set_{fb}")] + ([(S, f"with_{fb}")] if deleg else [])))
            else:
                # Kani's modifies() instrumentation blows up (57 s, 4.9 GB per harness) when the body reaches UInt::new's
                # panic path; the same postcondition is asserted in a loop-free full-domain harness instead (complete proof,
                # the frame is immediate: &mut self of a one-field struct)
                b0 = f"kani::assume(in_index < {f.count});" if f.array else ""
                post = conj(inv_expr(s, f"s_.{R}"), f"(s_.{R} as u128) == put_spec(in_raw as u128, {f.ranges_lit()}, {shift}, in_val_v)")
                hs.append(H(f"{pre}_{fb}_set", "set", None,
                            f"{any_struct(s, 's_', True)} {idx_decl} {b0} {anyv} {assume_v} s_.set_{fb}({idx_arg}in_val); assert!({post}); kani::cover!(true);",
                            ["#[kani::proof]"], struct=s, fld=f, inputs=ins, needs=[(S, f"set_{fb}")]))
            bound = f"kani::assume(in_index < {f.count});" if f.array else ""
            hs.append(H(f"{pre}_{fb}_setwith", "setwith", None,
                        f"{any_struct(s, 's_')} {idx_decl} {bound} {anyv} {assume_v} let before_ = s_.{R}; let w_ = s_.with_{fb}({idx_arg}in_val); "
                        f"assert!(s_.{R} == before_); let mut m_ = s_; m_.set_{fb}({idx_arg}in_val); assert!(m_.{R} == w_.{R}); kani::cover!(true);",
                        ["#[kani::proof]"], struct=s, fld=f, inputs=ins, needs=[(S, f"with_{fb}"), (S, f"set_{fb}")]))
            if f.array:
                hs.append(H(f"{pre}_{fb}_oob_with", "oob_with", None,
                            f"{any_struct(s, 's_')} {idx_decl} kani::assume(in_index >= {f.count}); {anyv} {assume_v} let _r = s_.with_{fb}(in_index, in_val); "
                            f"kani::cover!(true, \"returned\");",
                            ["#[kani::proof]", "#[kani::should_panic]"], struct=s, fld=f, inputs=ins, expect="panic",
                            needs=[(S, f"with_{fb}")]))
                hs.append(H(f"{pre}_{fb}_oob_set", "oob_set", None,
                            f"{any_struct(s, 's_', True)} {idx_decl} kani::assume(in_index >= {f.count}); {anyv} {assume_v} s_.set_{fb}(in_index, in_val); "
                            f"kani::cover!(true, \"returned\");",
                            ["#[kani::proof]", "#[kani::should_panic]"], struct=s, fld=f, inputs=ins, expect="panic",
                            needs=[(S, f"set_{fb}")]))
            if f.readable:
                # read-back from the with_ contract only (with_ stubbed by its verified contract, getter inlined)
                hs.append(H(f"{pre}_{fb}_rb", "rb", None,
                            f"{any_struct(s, 's_')} {idx_decl} {bound} {anyv} {assume_v} let w_ = s_.with_{fb}({idx_arg}in_val); "
                            f"let g_ = w_.{fn}({idx_only}); assert!({f.ty.result_pred('(&g_)', 'in_val_v')}); kani::cover!(true);",
                            ["#[kani::proof]", f"#[kani::stub_verified({S}::with_{fb})]"], struct=s, fld=f, inputs=ins,
                            needs=[(S, f"with_{fb}"), (S, fn)]))
    return hs


def history_harnesses(p: Program, s: Struct, max_pairs=12):
    """C12 lemmas proved from the write contracts only (writes stubbed by their verified contracts)"""
    hs = []
    S, R = s.name, s.rawname
    pre = f"h_{p.pid}_{S}"
    W = [f for f in s.fields if f.writable]

    def call(f, recv, tag):
        """(decls, expr) for a with_ call on field f with fresh inputs"""
        d = f.ty.any_value(f"in_v{tag}")
        vv = value_valid(f.ty, f"in_v{tag}")
        if vv:
            d += f" kani::assume({vv});"
        if f.array:
            d += f" let in_i{tag}: usize = kani::any(); kani::assume(in_i{tag} < {f.count});"
            return d, f"{recv}.with_{f.base}(in_i{tag}, in_v{tag})", f"(in_i{tag} * {f.stride})"
        return d, f"{recv}.with_{f.base}(in_v{tag})", "0"

    for f in W:
        d1, e1, sh1 = call(f, "s_", "a")
        d2, _, _ = call(f, "s_", "b")
        # same (field, index) written twice: last write wins
        if f.array:
            e_ab = f"s_.with_{f.base}(in_ia, in_va).with_{f.base}(in_ia, in_vb)"
            e_b = f"s_.with_{f.base}(in_ia, in_vb)"
        else:
            e_ab = f"s_.with_{f.base}(in_va).with_{f.base}(in_vb)"
            e_b = f"s_.with_{f.base}(in_vb)"
        hs.append(H(f"{pre}_{f.base}_overwrite", "overwrite", None,
                    f"{any_struct(s, 's_')} {d1} {d2} assert!({e_ab}.{R} == {e_b}.{R}); kani::cover!(true);",
                    ["#[kani::proof]", f"#[kani::stub_verified({S}::with_{f.base})]"], struct=s, fld=f,
                    inputs=("in_raw", "in_va_v", "in_vb_v"), needs=[(S, f"with_{f.base}")]))
    pairs = 0
    for i, f in enumerate(W):
        for g in W[i + 1:]:
            if pairs >= max_pairs:
                break
            if f.mask() & g.mask():
                continue
            pairs += 1
            df, _, _ = call(f, "s_", "a")
            dg, _, _ = call(g, "s_", "b")
            fa = (f"with_{f.base}(in_ia, in_va)" if f.array else f"with_{f.base}(in_va)")
            gb = (f"with_{g.base}(in_ib, in_vb)" if g.array else f"with_{g.base}(in_vb)")
            hs.append(H(f"{pre}_{f.base}_{g.base}_commute", "commute", None,
                        f"{any_struct(s, 's_')} {df} {dg} assert!(s_.{fa}.{gb}.{R} == s_.{gb}.{fa}.{R}); kani::cover!(true);",
                        ["#[kani::proof]", f"#[kani::stub_verified({S}::with_{f.base})]", f"#[kani::stub_verified({S}::with_{g.base})]"],
                        struct=s, fld=f, inputs=("in_raw", "in_va_v", "in_vb_v"),
                        needs=[(S, f"with_{f.base}"), (S, f"with_{g.base}")]))
    # aliasing: a write through f observed through an overlapping readable g
    n_alias = 0
    for f in W:
        for g in s.fields:
            if g is f or not g.readable or not (f.mask() & g.mask()) or n_alias >= max_pairs:
                continue
            n_alias += 1
            df, ef, shf = call(f, "s_", "a")
            if g.array:
                dg = f"let in_ib: usize = kani::any(); kani::assume(in_ib < {g.count});"
                ge, shg = f"{g.name}(in_ib)", f"(in_ib * {g.stride})"
            else:
                dg, ge, shg = "", f"{g.name}()", "0"
            exp = (f"get_spec(put_spec(in_raw as u128, {f.ranges_lit()}, {shf}, in_va_v), {g.ranges_lit()}, {shg})")
            hs.append(H(f"{pre}_{f.base}_{g.base}_alias", "alias", None,
                        f"{any_struct(s, 's_')} {df} {dg} let g_ = {ef}.{ge}; assert!({g.ty.result_pred('(&g_)', exp)}); kani::cover!(true);",
                        ["#[kani::proof]", f"#[kani::stub_verified({S}::with_{f.base})]"], struct=s, fld=f,
                        inputs=("in_raw", "in_va_v"), needs=[(S, f"with_{f.base}"), (S, g.name)]))
    return hs


def builder_harnesses(p: Program, s: Struct):
    if not s.builder_expected():
        return []
    if any(f.array and f.count > 64 for f in s.fields):
        # the step of a 128-element array calls the stubbed with_ 128 times: 600-720 s for one harness on this machine (measured on
        # `ar128b`), i.e. at the harness time limit.  Such builders are left to the INV / CONST stand-ins; the functions then show up
        # under emitted_but_not_under_contract in the evidence
        return []
    hs = []
    S, R = s.name, s.rawname
    pre = f"h_{p.pid}_{S}"
    P = s.pname
    chain = s.mask_chain()
    hs.append(H(f"{pre}_builder", "builder", f"{S}::builder", f"let _r = {S}::builder(); kani::cover!(true);",
                [f"#[kani::proof_for_contract({S}::builder)]"], struct=s, needs=[(S, "builder")]))
    for f, m0, m1 in chain:
        aty = f.ty.setter_ty()
        if f.array:
            decl = f"let in_val: [{aty}; {f.count}] = kani::any();" if f.ty.kind != "uint" else None
            if decl is None:
                parts = " ".join(f.ty.any_value(f"in_v{i}") for i in range(f.count))
                decl = parts + " let in_val = [" + ", ".join(f"in_v{i}" for i in range(f.count)) + "];"
            vv = conj(*[value_valid(f.ty, f"in_val[{i}]") for i in range(f.count)])
        else:
            decl = f.ty.any_value("in_val")
            vv = value_valid(f.ty, "in_val")
        assume_v = f"kani::assume({vv});" if vv and vv != "true" else ""
        hs.append(H(f"{pre}_{f.base}_step", "step", f"{partial_path(s, m0)}::with_{f.base}",
                    f"let p_: {partial_ty(s, m0)} = kani::any(); let in_raw = p_.0.{R}; {decl} {assume_v} let _r = p_.with_{f.base}(in_val); kani::cover!(true);",
                    [f"#[kani::proof_for_contract({partial_path(s, m0)}::with_{f.base})]", f"#[kani::stub_verified({S}::with_{f.base})]"],
                    struct=s, fld=f, inputs=("in_raw",), needs=[(canon_partial(s, m0), f"with_{f.base}"), (S, f"with_{f.base}")]))
    final = chain[-1][2] if chain else 0
    hs.append(H(f"{pre}_build", "build", f"{partial_path(s, final)}::build",
                f"let p_: {partial_ty(s, final)} = kani::any(); let in_raw = p_.0.{R}; let _r = p_.build(); kani::cover!(true);",
                [f"#[kani::proof_for_contract({partial_path(s, final)}::build)]"], struct=s, inputs=("in_raw",),
                needs=[(canon_partial(s, final), "build")]))
    # whole chain from the contracts only; intermediate types written out so that rustc checks the exact mask chain
    decls, stmts, acc = [], [f"let p0_: {partial_ty(s, 0)} = {S}::builder();"], f"{hex(s.start_value())}u128"
    stubs = [f"#[kani::stub_verified({S}::builder)]"]
    needs = [(S, "builder")]
    for k, (f, m0, m1) in enumerate(chain):
        aty = f.ty.setter_ty()
        if f.array:
            # element by element, so that every element's view is a named local in the counterexample trace
            decls.append(" ".join(f.ty.any_value(f"a{k}_{i}") for i in range(f.count))
                         + f" let a{k} = [" + ", ".join(f"a{k}_{i}" for i in range(f.count)) + "];")
            for i in range(f.count):
                vv = value_valid(f.ty, f"a{k}[{i}]")
                if vv:
                    decls.append(f"kani::assume({vv});")
                acc = f"put_spec({acc}, {f.ranges_lit()}, {i * f.stride}, {f.ty.view(f'a{k}[{i}]')})"
        else:
            decls.append(f.ty.any_value(f"a{k}"))
            vv = value_valid(f.ty, f"a{k}")
            if vv:
                decls.append(f"kani::assume({vv});")
            acc = f"put_spec({acc}, {f.ranges_lit()}, 0, {f.ty.view(f'a{k}')})"
        stmts.append(f"let p{k + 1}_: {partial_ty(s, m1)} = p{k}_.with_{f.base}(a{k});")
        stubs.append(f"#[kani::stub_verified({partial_path(s, m0)}::with_{f.base})]")
        needs.append((canon_partial(s, m0), f"with_{f.base}"))
    stubs.append(f"#[kani::stub_verified({partial_path(s, final)}::build)]")
    needs.append((canon_partial(s, final), "build"))
    hs.append(H(f"{pre}_chain", "chain", None,
                " ".join(decls) + " " + " ".join(stmts) + f" let r_: {S} = p{len(chain)}_.build(); assert!((r_.{R} as u128) == {acc}); kani::cover!(true);",
                ["#[kani::proof]"] + stubs, struct=s, needs=needs))
    return hs


def program_contracts(p: Program, selected=None):
    """{type name: [contract records]} keyed by the dumped type.
    With `selected` (harnesses), a contract is attached only to functions that are the target of a selected
    proof_for_contract harness or are stubbed by one: Kani's modifies() instrumentation blows up (24-120 s, 4.7 GB per
    harness, measured) when the function under proof CALLS another contract-annotated function, so callees that are
    inlined in this run (enum conversions, nested bitfields) carry no attributes in this run."""
    out = {}
    for e in p.enums:
        out[e.name] = enum_contracts(e)
    for s in p.structs:
        out[s.name] = struct_contracts(s)
    if selected is not None:
        keep = set()
        for h in selected:
            for t in [h.target] + list(h.stubs):
                if t:
                    keep.add(_canon_target(t))
        for tname in out:
            out[tname] = [c for c in out[tname] if (c["impl"], c["fn"]) in keep]
    return out


def _canon_target(t):
    """`PartialS::<0x3>::with_a` -> ('PartialS<3>', 'with_a');  `S::f` -> ('S', 'f')"""
    m = re.match(r"(\w+)::<(0x[0-9a-fA-F]+|\d+)>::(\w+)$", t)
    if m:
        return (f"{m.group(1)}<{int(m.group(2), 0)}>", m.group(3))
    a, _, b = t.rpartition("::")
    return (a, b)


def program_harnesses(p: Program, want_history=True):
    hs = []
    inner = {f.ty.ref.name for s in p.structs for f in s.fields if f.ty.kind == "nested"}
    if not p.structs:
        for e in p.enums:
            hs += enum_harnesses(p, e)
    for s in p.structs:
        if s.name in inner:
            continue   # a nested bitfield is inlined in its user's proofs; as a struct of its own it is like any other
        hs += struct_harnesses(p, s)
        hs += debug_harnesses(p, s)
        hs += builder_harnesses(p, s)
        if want_history:
            hs += history_harnesses(p, s)
    return hs


def select(p: Program, hs, prop):
    """harnesses of program p that decide property prop"""
    if prop not in p.props:
        return []
    out = []
    flt = FIELD_FILTER.get(prop)
    for h in hs:
        if prop not in KIND_PROPS[h.kind]:
            continue
        if flt and h.fld is not None and not flt(h.fld):
            continue
        if flt and h.fld is None and h.kind not in ("ctor",):
            continue
        out.append(h)
    # Kani only accepts stub_verified(f) when a proof_for_contract(f) harness exists in the crate (and the runner
    # requires it to pass in the same run): add those proofs as dependencies
    bytarget = {h.target: h for h in hs if h.target}
    names = {h.name for h in out}
    work = list(out)
    while work:
        h = work.pop()
        for t in h.stubs:
            d = bytarget.get(t)
            if d is not None and d.name not in names:
                names.add(d.name)
                out.append(d)
                work.append(d)
    return out


def support_items(p: Program, have_types=None):
    """spec helpers and Arbitrary impls emitted around the annotated expansion"""
    top, proofs = [], []
    dbg = [s for s in p.structs if s.debug]
    if dbg:
        import os
        here = os.path.dirname(os.path.dirname(os.path.abspath(__file__)))
        n = max(debug_max_len(s) for s in dbg) + 1
        top.append(open(os.path.join(here, "spec", "dbgspec.rs")).read().replace("pub const SINK: usize = 192;", f"pub const SINK: usize = {n};"))
        for s in p.structs:
            if s.debug:
                top.append(debug_spec_fn(s))
    for e in p.enums:
        top.append(e.spec_fns())
        proofs.append(e.arbitrary_impl())
    for s in p.structs:
        proofs.append(arbitrary_impl_struct(s))
        if s.builder_expected() and (have_types is None or s.pname in have_types):
            proofs.append(arbitrary_impl_partial(s))
    return "".join(top), "".join(proofs)


# --------------------------------------------------------------------------------------------
# C19: Debug text

def _dec_len(maxv):
    return len(str(maxv))


def debug_max_len(s: Struct, pretty=False, ind=0):
    """longest possible text of `{:?}` (pretty: `{:#?}`) for struct s"""
    n = len(s.name) + (2 if not pretty else 2)   # "S {" / "S {"
    for i, f in enumerate(s.fields):
        n += (2 if (i or True) else 1) if not pretty else 1 + ind + 4   # ", " or " " / "\n" + indentation
        n += len(f.name) + 2
        n += _value_max_len(f.ty, pretty, ind + 4)
        if pretty:
            n += 1
    n += 2 if not pretty else 2 + ind
    return n + 4


def _value_max_len(ty: FT, pretty, ind):
    k = ty.kind
    if k == "bool":
        return 5
    if k in ("uint", "native"):
        return _dec_len((1 << ty.width) - 1)
    if k == "signed":
        return 1 + _dec_len(1 << (ty.width - 1))
    if k == "enum":
        return max(len(vn) for vn, _ in ty.ref.active())
    if k == "optenum":
        inner = max(max(len(vn) for vn, _ in ty.ref.active()), _dec_len((1 << ty.width) - 1))
        return inner + 5 + ((2 * ind + 8) if pretty else 0)
    if k == "nested":
        return debug_max_len(ty.ref, pretty, ind)
    raise ValueError(k)


def debug_spec_fn(s: Struct):
    """Rust fn exp_<S>(raw, pretty, ind, o) writing the text C19 requires, generated from the table"""
    L = [f"pub fn exp_{s.name}(raw: u128, pretty: bool, ind: usize, o: &mut Sink) {{", f"    o.put(b\"{s.name}\");"]
    if not s.fields:
        L.append("}")
        return "\n".join(L) + "\n"
    L.append("    o.put(b\" {\");")
    for i, f in enumerate(s.fields):
        sep = '" "' if i == 0 else '", "'
        L.append(f"    if pretty {{ o.put(b\"\\n\"); o.pad(ind + 4); }} else {{ o.put(b{sep}); }}")
        L.append(f"    o.put(b\"{f.name}: \");")
        L.append(f"    {{ let bits = get_spec(raw, {f.ranges_lit()}, 0);")
        k = f.ty.kind
        if k == "bool":
            L.append("      if bits == 1 { o.put(b\"true\"); } else { o.put(b\"false\"); }")
        elif k in ("uint", "native"):
            L.append(f"      o.put_unsigned(bits, {f.ty.width});")
        elif k == "signed":
            L.append(f"      o.put_signed(bits, {f.ty.width});")
        elif k == "enum":
            arms = " ".join(f"{hexlit(vv)} => o.put(b\"{vn}\")," for vn, vv in f.ty.ref.active())
            L.append(f"      match bits {{ {arms} _ => o.put(b\"<no variant>\") }}")
        elif k == "optenum":
            arms = " ".join(f"{hexlit(vv)} => {{ o.open_wrap(b\"Ok\", pretty, ind + 4); o.put(b\"{vn}\"); o.close_wrap(pretty, ind + 4); }}"
                            for vn, vv in f.ty.ref.active())
            L.append(f"      match bits {{ {arms} _ => {{ o.open_wrap(b\"Err\", pretty, ind + 4); o.put_unsigned(bits, {f.ty.width}); o.close_wrap(pretty, ind + 4); }} }}")
        elif k == "nested":
            L.append(f"      exp_{f.ty.ref.name}(bits, pretty, ind + 4, o);")
        L.append("    }")
        L.append("    if pretty { o.put(b\",\"); }")
    L.append("    if pretty { o.put(b\"\\n\"); o.pad(ind); o.put(b\"}\"); } else { o.put(b\" }\"); }")
    L.append("}")
    return "\n".join(L) + "\n"


def debug_harnesses(p: Program, s: Struct):
    if not s.debug:
        return []
    n = max(debug_max_len(x) for x in p.structs if x.debug) + 1
    body = (f"use core::fmt::Write; {any_struct(s, 's_')} let mut k_ = Sink::new(); let r_ = write!(&mut k_, \"{{:?}}\", s_); assert!(r_.is_ok()); "
            f"let mut e_ = Sink::new(); exp_{s.name}(in_raw as u128, false, 0, &mut e_); assert!(!e_.overflow); assert!(k_.len == e_.len); "
            f"let mut i_ = 0; while i_ < SINK {{ assert!(k_.buf[i_] == e_.buf[i_]); i_ += 1; }} kani::cover!(true);")
    h = H(f"h_{p.pid}_{s.name}_debug", "debug", None, body, ["#[kani::proof]", f"#[kani::unwind({n + 3})]"], struct=s,
          inputs=("in_raw",), needs=[])
    h.sink = n
    return [h]
