"""The corpus: which declarations the stage-2 properties are proved on (DESIGN.md section 3).
Deterministic; the thorough tier adds systematically enumerated and VERIF_SEED-driven layouts.
Every struct is checked against the C09 acceptance rule when the corpus is built."""
import os, random
from .model import *

ARB_Q = (1, 7, 9, 15, 17, 24, 31, 33, 48, 63, 65, 127)
WORDS = (8, 16, 32, 64)


def S(pid, base, fields, default=None, debug=False, name=None):
    s = Struct(name or f"S{pid}", base, fields, default=default, debug=debug)
    assert s.valid(), f"corpus declaration {pid} violates the C09 rule"
    # lists naming a bit twice are outside the guarantees of C04: only the dedicated kselfov* layouts may have them
    assert pid.startswith(("kselfov", "koverlaparr", "kroselfov")) or not any(f.self_overlap() for f in fields), f"{pid}: self-overlapping field"
    return s


def F(name, ty, ranges, array=None, access="rw", style="std"):
    if isinstance(ranges, tuple):
        ranges = [ranges]
    return Field(name, ty, list(ranges), array=array, access=access, style=style)


def contiguous_struct(pid, base, placements, access="rw", default=None):
    fields = []
    for k, (lo, n, kind) in enumerate(placements):
        ty = T_bool() if kind == "b" else T_u(n)
        fields.append(Field(f"f{k}", ty, [(lo, n)], access=access))
    return S(pid, base, fields, default=default)


def boundary_placements(W):
    """bit 0, unaligned interior, ending at the top bit, full width, one below full width, and every
    storage-word boundary (8/16/32/64) approached from both sides"""
    out = [(0, 1, "b"), (W - 1, 1, "b")]
    if W >= 3:
        out.append((1, min(W - 2, 5), "u"))
        out.append((W - min(W - 1, 3), min(W - 1, 3), "u"))
    if W >= 2:
        out.append((0, W - 1, "u"))
        out.append((1, W - 1, "u"))
    out.append((0, W, "u"))
    for n in WORDS:
        if n < W:
            out.append((W - n, n, "u"))
            out.append((0, n, "u"))
            if n + 1 < W:
                out.append((1, n, "u"))
    for k in WORDS:
        if k < W:
            out.append((k - 1, 1, "b"))
            out.append((k, 1, "b"))
            if k >= 3:
                out.append((k - 3, 3, "u"))          # ends just below the boundary
            if k + 3 <= W:
                out.append((k, 3, "u"))              # starts at the boundary
            if k - 2 >= 0 and k + 1 < W:
                out.append((k - 2, 3, "u"))          # straddles: highest bit index == k
            for n in WORDS:
                lo = k - n + 1
                if lo >= 0 and k < W and n < W:
                    out.append((lo, n, "u"))         # native field whose highest bit index is exactly k
    if W > 12:
        out.append((3, 9, "u"))
    seen, res = set(), []
    for lo, n, k in out:
        if n < 1 or lo < 0 or lo + n > W or (lo, n, k) in seen:
            continue
        seen.add((lo, n, k))
        res.append((lo, n, k))
    return res


def all_ranges(W):
    return [(lo, n, "u") for lo in range(W) for n in range(1, W - lo + 1)]


# ------------------------------------------------------------------------------------------------
def programs_contiguous(tier):
    progs = []
    bases = [8, 16, 32, 64, 128] + list(ARB_Q)
    for b in bases:
        pl = boundary_placements(b)
        if tier == "quick" and len(pl) > 14:
            # keep the classic boundaries and a deterministic spread of the word-boundary cases
            keep = pl[:7] + pl[7::max(1, (len(pl) - 7) // 7)][:7]
            pl = keep
        c16 = tier == "thorough" or b in (8, 32, 128, 7, 24, 33, 65, 127)        # quick: half of the bases for the totality run
        props = ["C01", "C02", "C06"] + (["C16"] if c16 else []) + (["C11"] if b not in NATIVE else []) + ["C12"] * (b in (8, 24))
        progs.append(Program(f"bd{b}", structs=[contiguous_struct(f"bd{b}", b, pl)], props=tuple(props)))
    progs.append(Program("all5", structs=[contiguous_struct("all5", 5, all_ranges(5))], props=("C01", "C02")))
    if tier == "thorough":
        progs.append(Program("all8", structs=[contiguous_struct("all8", 8, all_ranges(8))], props=("C01", "C02", "C16")))
        progs.append(Program("all9", structs=[contiguous_struct("all9", 9, all_ranges(9))], props=("C01", "C02", "C11")))
    return progs


def mk_enum(name, bits, exhaustive, values=None, n_variants=None, repr_=None):
    if values is None:
        total = 1 << bits
        if exhaustive == "true":
            values = list(range(total))
        else:
            k = n_variants or min(3, total - 1) or 1
            # spread: 0, the top value, and something in the middle
            cand = [0, total - 1, total // 2, 1, total // 3]
            values = []
            for c in cand:
                if c not in values and 0 <= c < total:
                    values.append(c)
                if len(values) == k:
                    break
    return Enum(name, bits, [(f"V{i}", v) for i, v in enumerate(values)], exhaustive=exhaustive, repr=repr_)


def programs_arrays(tier):
    progs = []
    e1 = mk_enum("Ear1", 1, "true")
    e2 = mk_enum("Ear2", 2, None, values=[0, 1, 3])
    progs.append(Program("ar8", enums=[], structs=[S("ar8", 8, [
        F("b", T_bool(), (0, 1), array=(8, None)),
    ])], props=("C03", "C16", "C12")))
    progs.append(Program("ar8b", structs=[S("ar8b", 8, [
        F("a", T_u(3), (0, 3), array=(2, 4)),      # stride > width (gap bit 3), last element ends at bit 6
        F("t", T_bool(), (7, 1)),
    ])], props=("C03", "C16", "C12", "C13")))
    progs.append(Program("ar16", enums=[e1, e2], structs=[S("ar16", 16, [
        F("n", T_u(4), (0, 4), array=(2, None)),
        F("e", T_enum(e2), (8, 2), array=(3, 2)),
        F("y", T_enum(e1), (14, 1), array=(2, 1)),  # last element at the top bit
    ])], props=("C03", "C08", "C16")))
    progs.append(Program("ar32", structs=[S("ar32", 32, [
        F("b", T_u(8), (0, 8), array=(3, None)),
        F("h", T_u(3), (24, 3), array=(2, 5)),     # 24..26, 29..31: ends at the top bit, stride > width
    ])], props=("C03", "C16")))
    progs.append(Program("ar64", structs=[S("ar64", 64, [
        F("w", T_u(16), (0, 16), array=(4, None)),  # K maximal
    ])], props=("C03", "C16", "C13")))
    progs.append(Program("ar128", structs=[S("ar128", 128, [
        F("q", T_u(32), (0, 32), array=(3, 48)),   # stride > width, last ends at 127
        F("s", T_i(8), (32, 8), array=(2, 48)),
    ])], props=("C03", "C05", "C16")))
    progs.append(Program("ar128u", structs=[S("ar128u", 128, [
        F("sample", T_u(12), (4, 12), array=(8, 16)),          # arbitrary-int elements: the first ends below bit 64, the last four lie above it
    ])], props=("C03", "C16", "C13")))
    progs.append(Program("ar100u", structs=[S("ar100u", 100, [
        F("n", T_u(5), (3, 5), array=(12, 8)),                 # 3..=7, ..., 91..=95 in a u100 (storage u128)
        F("t", T_bool(), (99, 1)),
    ])], props=("C03", "C11", "C16")))
    progs.append(Program("ar24", structs=[S("ar24", 24, [
        F("x", T_u(4), (0, 4), array=(6, None)),   # fills u24 exactly, K maximal
    ])], props=("C03", "C11", "C16", "C13")))
    progs.append(Program("ar48", structs=[S("ar48", 48, [
        F("x", T_u(7), (2, 7), array=(5, 9)),      # 2..8, 11..17, ... , 38..44
        F("t", T_bool(), (47, 1), array=None),
        F("u", T_bool(), (45, 1), array=(2, 1)),
    ])], props=("C03", "C11", "C16")))
    # the attribute grammar: argument order and the legacy `stride: n` spelling must not matter
    progs.append(Program("arsty", structs=[S("arsty", 32, [
        F("low", T_u(4), (0, 4), array=(3, 8), style="stride_first"),            # #[bits(stride = 8, 0..=3, rw)]
        F("flag", T_bool(), (5, 1), array=(3, 8), style="stride_first_colon"),   # #[bit(stride: 8, 5, rw)]
        F("mid", T_u(2), (6, 2), array=(3, 8), style="stride_mid"),              # #[bits(6..=7, stride = 8, rw)]
        F("acc", T_u(4), (24, 4), style="access_first"),                         # #[bits(rw, 24..=27)]
        F("nc", T_u(2), [(28, 1), (30, 1)], array=(2, 1), style="access_first_colon"),   # #[bits(rw, [28, 30], stride: 1)]
    ])], props=("C03", "C04", "C02", "C01", "C16", "C13", "C09")))
    # `bits(n..=n)`: a one-bit-wide range written with the range keyword (u1, bool, 1-bit enum, array of u1)
    e1r = mk_enum("Ear1r", 1, "true")
    progs.append(Program("rng1", enums=[e1r], structs=[S("rng1", 16, [
        F("ready", T_u(1), (7, 1), style="range1"),
        F("flag", T_bool(), (3, 1), style="range1"),
        F("p", T_enum(e1r), (4, 1), style="range1"),
        F("en", T_u(1), (8, 1), array=(4, 2), style="range1"),
    ])], props=("C01", "C02", "C03", "C08", "C09", "C16", "C13")))
    # zero-padded decimal literals are ordinary decimal numbers (010 is ten)
    progs.append(Program("litsty", structs=[S("litsty", 128, [
        F("x", T_u(8), (10, 8), style="zpad"),                     # #[bits(010..=017, rw)]
        F("f", T_bool(), (12 + 8, 1), style="zpad"),                # #[bit(020, rw)]
        F("y", T_u(8), (60, 8), style="zpad"),                     # #[bits(060..=067, rw)]
    ])], props=("C01", "C02", "C09", "C16")))
    progs.append(Program("litsty2", structs=[S("litsty2", 128, [
        F("z", T_u(4), (100, 4), array=(3, 8), style="zpad"),       # #[bits(100..=103, rw, stride = 008)]
        F("w", T_bool(), (9, 1), array=(2, 10), style="zpad"),      # #[bit(009, rw, stride = 010)]
    ])], props=("C03", "C09", "C16")))
    # boundary predicates (round 7): 8-bit elements NOT starting on a byte boundary with a byte-multiple stride (a byte-store fast path
    # that forgets the start offset), an array whose topmost bit is exactly bit 32 of a wide base (a low-word fast path with <=), a
    # strided array whose last element ends at the top bit although the stride does not tile the register
    e8a = mk_enum("Ear8", 8, "false", values=[0xFF, 0, 0x80, 0x7F])
    progs.append(Program("arub", enums=[e8a], structs=[S("arub32", 32, [
        F("lowf", T_u(4), (0, 4)),
        F("bytes", T_u(8), (4, 8), array=(3, None)),              # 4..=11, 12..=19, 20..=27
        F("topf", T_u(4), (28, 4)),
    ], name="Sarub32"), S("arub64", 64, [
        F("s", T_i(8), (3, 8), array=(4, 16)),                    # 3..=10, 19..=26, 35..=42, 51..=58
        F("e", T_enum(e8a), (11, 8), array=(2, 32)),              # 11..=18, 43..=50
    ], name="Sarub64")], props=("C03", "C05", "C08", "C12", "C16")))
    progs.append(Program("art32", structs=[S("art32a", 64, [
        F("b", T_u(8), (1, 8), array=(4, None)),                  # topmost bit = 32
    ], name="Sart32a"), S("art32b", 128, [
        F("t", T_u(3), (0, 3), array=(11, None)),                 # 0..=32: topmost bit = 32, arbitrary-int elements
        F("f", T_bool(), (64, 1), array=(9, 4)),                  # 64, 68, ..., 96: topmost bit = 96
    ], name="Sart32b"), S("art64", 128, [
        F("e", T_u(5), (0, 5), array=(13, None)),                 # 0..=64: the last element's top bit is exactly bit 64
        F("g", T_u(8), (65, 8), array=(2, 16)),
    ], name="Sart64")], props=("C03", "C16")))
    # the largest array a bitfield can hold (128 elements): const-usability of its builder step and its inventory (seed C15-m: an unrolled
    # chain replaced by a non-const loop for count >= 128)
    progs.append(Program("armax", structs=[S("armax128", 128, [F("f", T_bool(), (0, 1), array=(128, None))], name="Sarmax128"),
                                            S("armax64", 64, [F("g", T_u(1), (0, 1), array=(64, None))], name="Sarmax64")], props=("C15", "C14")))
    progs.append(Program("arnt", structs=[S("arnt8", 8, [
        F("a", T_u(2), (0, 2), array=(2, 6)),                     # 0..=1, 6..=7: stride 6 does not tile u8, last element at the top
    ], name="Sarnt8"), S("arnt32", 32, [
        F("n", T_u(4), (1, 4), array=(4, 9)),                     # 1..=4, 10..=13, 19..=22, 28..=31
    ], name="Sarnt32"), S("arnt64", 64, [
        F("q", T_u(4), (0, 4), array=(6, 12)),                    # last element 60..=63
    ], name="Sarnt64")], props=("C03", "C12", "C16", "C13")))
    if tier == "thorough":
        progs.append(Program("ar127", structs=[S("ar127", 127, [
            F("x", T_u(63), (1, 63), array=(2, None)),
            F("b", T_bool(), (0, 1)),
        ])], props=("C03", "C11", "C16")))
        progs.append(Program("ar128b", structs=[S("ar128b", 128, [
            F("b", T_bool(), (0, 1), array=(128, None)),
        ])], props=("C03", "C16")))
        progs.append(Program("ar64s", structs=[S("ar64s", 64, [
            F("s", T_i(16), (0, 16), array=(3, 24)),
            F("t", T_i(8), (56, 8)),
        ])], props=("C03", "C05", "C16")))
    return progs


def programs_noncontig(tier):
    progs = []
    e4 = mk_enum("Enc4", 4, None, values=[0, 9, 15, 6])
    progs.append(Program("nc16", structs=[S("nc16", 16, [
        F("a", T_u(8), [(0, 4), (8, 4)]),                 # ascending
        F("r", T_u(8), [(12, 4), (4, 4)]),                # reversed
    ])], props=("C04", "C16", "C12", "C13")))
    progs.append(Program("nc32", structs=[S("nc32", 32, [
        F("imm", T_u(12), [(7, 5), (25, 7)]),              # ends at the top bit
        F("sh", T_u(6), [(2, 1), (0, 1), (4, 1), (1, 1), (5, 2)]),   # shuffled single bits + a range (bits 0,1,2,4,5,6)
        F("m", T_u(8), [(12, 3), (20, 5)]),
    ])], props=("C04", "C16", "C12")))
    progs.append(Program("nc8", structs=[S("nc8", 8, [
        F("x", T_u(4), [(0, 1), (2, 1), (4, 1), (6, 1)], array=(2, 1)),   # interleaved elements, last reaches bit 7
    ])], props=("C04", "C03", "C16", "C13")))
    progs.append(Program("nc64", enums=[e4], structs=[S("nc64", 64, [
        F("v", T_u(16), [(56, 8), (0, 8)]),                # byte swap across the word, top byte first
        F("e", T_enum(e4), [(8, 2), (62 - 40, 2)]),        # enum over two ranges
        F("s", T_i(8), [(32, 4), (40, 4)]),                # signed non-contiguous
        F("k", T_u(3), [(16, 1), (18, 2)], array=(2, 4)),  # 16,18,19 / 20,22,23
    ])], props=("C04", "C05", "C08", "C16", "C03", "C12")))
    progs.append(Program("nc32a", structs=[S("nc32a", 32, [
        F("x", T_u(8), [(4, 4), (0, 4)], array=(4, 8)),       # array element with a DESCENDING list (high nibble first)
    ])], props=("C04", "C03", "C16", "C13")))
    progs.append(Program("nc16a", structs=[S("nc16a", 16, [
        F("p", T_u(2), [(1, 1), (3, 1)], array=(2, 8)),       # first range not at bit 0: bits 1,3 / 9,11
        F("q", T_u(3), [(6, 1), (4, 1), (5, 1)], array=(2, 8)),   # shuffled single bits: 6,4,5 / 14,12,13
    ])], props=("C04", "C03", "C16")))
    progs.append(Program("nc128", structs=[S("nc128", 128, [
        F("t", T_u(12), [(0, 4), (60, 8)]),                # range crossing bit 64
        F("g", T_i(16), [(8, 8), (24, 8)]),
    ])], props=("C04", "C05", "C16", "C12")))
    progs.append(Program("nc128h", structs=[S("nc128h", 128, [
        F("h", T_u(64), [(96, 32), (64, 28), (92, 4)]),    # three ranges above bit 64, native type, top bit
    ])], props=("C04", "C16")))
    progs.append(Program("nc65", structs=[S("nc65", 65, [
        F("x", T_u(5), [(62, 3), (0, 2)]),                 # range 62..=64 crosses the u64 boundary of an arbitrary base
    ])], props=("C04", "C11", "C16")))
    progs.append(Program("nc16f", structs=[S("nc16f", 16, [
        F("perm", T_u(16), [(0, 4), (12, 4), (4, 8)]),           # FULL-width permutation whose first entry starts at bit 0
    ])], props=("C04", "C16", "C13", "C12")))
    progs.append(Program("nc32f", structs=[S("nc32f", 32, [
        F("swapped", T_u(32), [(0, 8), (16, 8), (8, 8), (24, 8)]),   # full-width, middle bytes swapped
        F("b1", T_u(8), (8, 8)),                                      # overlapping byte view (no builder)
    ])], props=("C04", "C16", "C12")))
    progs.append(Program("ncadj", structs=[S("ncadj", 32, [
        F("a", T_u(8), [(0, 4), (4, 4)]),                         # adjacent consecutive entries (could be one range, but is declared as two)
        F("b", T_u(8), [(20, 4), (12, 1), (13, 3)]),              # single bit followed by the multi-bit entry that continues it
        F("c", T_u(8), [(24, 2), (26, 2), (16, 4)], array=None),
    ])], props=("C04", "C16", "C12", "C13")))
    progs.append(Program("nc24", structs=[S("nc24", 24, [
        F("p", T_u(5), [(23, 1), (0, 4)]),                 # top exposed bit first
        F("q", T_u(8), [(4, 2), (8, 2), (12, 2), (16, 2)]),
    ])], props=("C04", "C11", "C16", "C12")))
    # native-typed list fields narrower than the base whose HIGHEST bit index equals the type width (8, 16, 32): a gather done
    # after narrowing to the field type would drop exactly that bit (seed C04-j)
    progs.append(Program("ncw", structs=[S("ncw16", 16, [
        F("level", T_u(8), [(0, 4), (5, 4)]),                     # bits 0..=3, 5..=8
        F("k", T_u(4), (12, 4)),
    ], name="Sncw16"), S("ncw64", 64, [
        F("lane", T_u(8), [(0, 4), (5, 4)], array=(4, 16)),       # element 0 has highest bit 8
        F("w", T_u(16), [(10, 1), (41, 15)]),                     # highest bit 55
    ], name="Sncw64"), S("ncw32", 32, [
        F("h", T_u(16), [(16, 1), (0, 15)]),                      # highest bit index 16 listed FIRST
        F("g", T_u(8), [(17, 4), (24, 4)]),
    ], name="Sncw32"), S("ncw128", 128, [
        F("d", T_u(32), [(0, 31), (32, 1)]),                      # highest bit index 32
        F("q", T_u(64), [(33, 31), (64, 33)]),                    # highest bit index 96, crossing bit 64
    ], name="Sncw128")], props=("C04", "C03", "C16")))
    # list fields of total width 2^k + 1 (9, 17, 33, 65) in a wider base: a "narrow container" chosen one bit too small drops the top bit
    progs.append(Program("ncp1", structs=[S("ncp9", 16, [
        F("f", T_u(9), [(0, 4), (8, 5)]),
    ], name="Sncp9"), S("ncp17", 32, [
        F("f", T_u(17), [(20, 9), (2, 8)]),
    ], name="Sncp17"), S("ncp33", 64, [
        F("f", T_u(33), [(0, 16), (30, 17)]),
    ], name="Sncp33"), S("ncp65", 128, [
        F("f", T_u(65), [(60, 33), (1, 32)]),
    ], name="Sncp65")], props=("C04", "C16")))
    if tier == "thorough":
        progs.append(Program("nc33", structs=[S("nc33", 33, [
            F("x", T_u(9), [(32, 1), (0, 8)]),
            F("y", T_u(8), [(8, 1), (9, 1), (10, 1), (11, 1), (12, 1), (13, 1), (14, 1), (15, 1)]),   # 8 single bits
            F("z", T_u(4), [(31, 1), (30, 1), (29, 1), (28, 1)]),                                     # descending bits
        ])], props=("C04", "C11", "C16")))
        progs.append(Program("nc128b", structs=[S("nc128b", 128, [
            F("a", T_u(16), [(0, 4), (36, 12)], array=(2, 64)),      # second element's last range ends at bit 111
            F("b", T_u(8), [(120, 8)], array=None),
        ])], props=("C04", "C03", "C16")))
    return progs


def programs_signed(tier):
    progs = []
    progs.append(Program("sg16", structs=[S("sg16", 16, [
        F("a", T_i(8), (0, 8)),
        F("b", T_i(8), (8, 8)),
    ])], props=("C05", "C16", "C13")))
    progs.append(Program("sg32", structs=[S("sg32", 32, [
        F("a", T_i(16), (3, 16)),
        F("b", T_i(8), (20, 8)),
        F("t", T_bool(), (31, 1)),
    ])], props=("C05", "C16", "C12")))
    progs.append(Program("sg128", structs=[S("sg128", 128, [
        F("a", T_i(64), (32, 64)),
        F("b", T_i(32), (0, 32)),
        F("c", T_i(16), (100, 16)),
    ])], props=("C05", "C16", "C12")))
    progs.append(Program("sg128f", structs=[S("sg128f", 128, [
        F("a", T_i(128), (0, 128)),
    ])], props=("C05", "C16", "C13")))
    progs.append(Program("sg64", structs=[S("sg64", 64, [
        F("a", T_i(32), (32, 32)),
        F("b", T_i(16), (0, 16), array=(2, None)),
    ])], props=("C05", "C03", "C16")))
    progs.append(Program("sg32a", structs=[S("sg32a", 32, [
        F("lane", T_i(8), (0, 8), array=(4, None)),              # signed array whose LAST element ends at the top bit
    ])], props=("C05", "C03", "C16", "C13", "C12")))
    progs.append(Program("sg64a", structs=[S("sg64a", 64, [
        F("hi", T_i(16), (16, 16), array=(2, 32)),               # 16..=31, 48..=63
        F("lo", T_u(16), (0, 16)),
    ])], props=("C05", "C03", "C16")))
    progs.append(Program("sg24", structs=[S("sg24", 24, [
        F("a", T_i(8), (16, 8)),
        F("b", T_i(16), (0, 16)),
    ])], props=("C05", "C11", "C16", "C13")))
    progs.append(Program("sgacc", structs=[S("sgacc", 32, [
        F("delta", T_i(8), (0, 8), access="w"),               # write-only signed field (no getter is generated)
        F("channel", T_u(8), (8, 8)),
        F("ro", T_i(16), (16, 16), access="r"),
    ], default=Default(0))], props=("C05", "C16", "C13", "C17")))
    progs.append(Program("sg12", structs=[S("sg12", 12, [
        F("offset", T_i(8), [(0, 4), (8, 4)]),            # signed, split, last range ends at the top EXPOSED bit of u12 (storage u16)
    ])], props=("C05", "C04", "C11", "C16", "C12")))
    progs.append(Program("sg20", structs=[S("sg20", 20, [
        F("a", T_i(8), [(4, 4), (0, 4)], array=(2, 10)),  # signed split array elements in an arbitrary base: 0..7, 10..17
    ])], props=("C05", "C04", "C03", "C11", "C16")))
    # signed fields over LISTS in the rarer shapes (round-6 seeds C05-k/l, C02-k, C12-k): all-adjacent ascending entries (a normaliser
    # could fold them into one range), a shuffled list whose top-bit range is not the last entry, 3 entries of unequal lengths with
    # a single bit, and wide (i64) lists in 128-bit storage, native and arbitrary
    progs.append(Program("sgl32", structs=[S("sgl32", 32, [
        F("adj", T_i(8), [(8, 7), (15, 1)]),                       # 8..=14, 15: adjacent ascending
        F("top", T_i(8), [(28, 4), (16, 4)]),                      # top-bit range listed FIRST
        F("k", T_u(4), (20, 4)),
    ])], props=("C05", "C04", "C16", "C12", "C13")))
    progs.append(Program("sgl128", structs=[S("sgl128", 128, [
        F("x", T_i(64), [(96, 32), (3, 1), (10, 31)]),             # 96..=127, 3, 10..=40: shuffled, unequal, single bit, top bit first
        F("adj", T_i(16), [(48, 8), (56, 4), (60, 4)]),            # three adjacent ascending entries ending at bit 63
        F("n", T_u(5), (4, 5)),
    ])], props=("C05", "C04", "C16", "C12")))
    progs.append(Program("sgl100", structs=[S("sgl100", 100, [
        F("sig", T_i(64), [(70, 20), (3, 1), (20, 43)]),           # last-listed range ends at bit 62, far below the top
        F("a", T_u(7), (63, 7)),
        F("b", T_u(10), (90, 10)),
        F("adj", T_i(8), [(4, 4), (8, 4)], array=None),
    ])], props=("C05", "C04", "C11", "C16", "C12")))
    progs.append(Program("sgw2", structs=[S("sgw2a", 32, [
        F("a", T_i(8), (23, 8)),                                   # highest bit is W-2: exactly one bit above the field
        F("t", T_bool(), (31, 1)),
    ], name="Ssgw2a"), S("sgw2b", 64, [
        F("a", T_i(16), (47, 16)),
        F("lo", T_i(32), (0, 32)),
    ], name="Ssgw2b"), S("sgw2c", 128, [
        F("lo", T_i(64), (0, 64)),                                 # i64 in the LOW half of a u128, a neighbour directly above
        F("hi", T_u(64), (64, 64)),
    ], name="Ssgw2c"), S("sgw2d", 128, [
        F("p", T_i(64), (0, 64), array=(2, None)),                 # [i64; 2] filling a u128
    ], name="Ssgw2d")], props=("C05", "C03", "C16", "C12")))
    progs.append(Program("sga100", structs=[S("sga100", 100, [
        F("sample", T_i(32), (4, 32), array=(2, 40)),              # signed array with stride > width in an arbitrary base: 4..=35, 44..=75
        F("top", T_i(8), (92, 8)),                                 # signed native field ending at the top EXPOSED bit
    ])], props=("C05", "C03", "C11", "C16", "C12")))
    if tier == "thorough":
        progs.append(Program("sg127", structs=[S("sg127", 127, [
            F("a", T_i(64), (63, 64)),
            F("b", T_i(32), (1, 32)),
            F("c", T_i(8), [(40, 4), (33, 4)]),
        ])], props=("C05", "C04", "C11", "C16")))
        progs.append(Program("sg64f", structs=[S("sg64f", 64, [F("a", T_i(64), (0, 64))])], props=("C05", "C16")))
    return progs


def programs_defaults(tier):
    progs = []
    progs.append(Program("df32", structs=[S("df32", 32, [
        F("a", T_u(8), (0, 8)), F("b", T_u(4), (12, 4), access="r"),
    ], default=Default(0x8000F0AA, "="))], props=("C06", "C13", "C17")))
    progs.append(Program("df16", structs=[S("df16", 16, [
        F("a", T_u(8), (4, 8)),
    ], default=Default(0xFFFF, ":"))], props=("C06", "C13")))
    progs.append(Program("df24", structs=[S("df24", 24, [
        F("a", T_u(8), (16, 8)), F("t", T_bool(), (0, 1)),
    ], default=Default(0xABCDEF, "=", const_name="DF24_DEFAULT"))], props=("C06", "C11", "C13")))
    progs.append(Program("df128", structs=[S("df128", 128, [
        F("a", T_u(64), (64, 64)),
    ], default=Default((1 << 127) | 0x1234, "=", const_name="DF128_DEFAULT"))], props=("C06", "C13")))
    progs.append(Program("df7", structs=[S("df7", 7, [
        F("a", T_u(3), (4, 3)),
    ], default=Default(0x7F, ":"))], props=("C06", "C11", "C13")))
    progs.append(Program("df72", structs=[S("df72", 72, [
        F("a", T_u(8), (64, 8)), F("b", T_u(16), (0, 16)),
    ], default=Default(0xA5_0000_0000_0000_00F0, "=", const_name="DF72_DEFAULT"))], props=("C06", "C11", "C13")))
    progs.append(Program("df100", structs=[S("df100", 100, [
        F("a", T_u(36), (64, 36)),
    ], default=Default((1 << 99) | (1 << 64) | 0x7, ":", const_name="DF100_DEFAULT"))], props=("C06", "C11", "C13")))
    progs.append(Program("df65", structs=[S("df65", 65, [
        F("t", T_bool(), (64, 1)),
    ], default=Default((1 << 64) | 1, "="))], props=("C06", "C11", "C13")))
    # literal notations of the default: binary, underscores, decimal, typed suffix
    progs.append(Program("dfbin", structs=[S("dfbin", 8, [F("a", T_u(4), (2, 4))], default=Default(0b1010_0101, "=", text="0b1010_0101"))], props=("C06", "C13")))
    progs.append(Program("dfdec", structs=[S("dfdec", 32, [F("a", T_u(8), (8, 8))], default=Default(1_000_000, ":", text="1_000_000"))], props=("C06", "C13")))
    progs.append(Program("dfsuf", structs=[S("dfsuf", 16, [F("a", T_u(8), (0, 8))], default=Default(0xBEEF, "=", text="0xBEEFu16"))], props=("C06", "C13")))
    progs.append(Program("dfoct", structs=[S("dfoct", 12, [F("a", T_u(4), (8, 4))], default=Default(0o7654, "=", text="0o7654"))], props=("C06", "C11", "C13")))
    progs.append(Program("df1", structs=[S("df1", 1, [F("a", T_bool(), (0, 1))], default=Default(1, "="))], props=("C06", "C11", "C13", "C01", "C02")))
    progs.append(Program("df2", structs=[S("df2", 2, [F("a", T_u(2), (0, 2))], default=Default(2, ":"))], props=("C06", "C11", "C13", "C01", "C02")))
    progs.append(Program("df64", structs=[S("df64", 64, [F("a", T_u(64), (0, 64))], default=Default(0))], props=("C06", "C13")))
    # defaults with the TOP bit and bit 0 set on arbitrary bases next to every native-width boundary, as a named constant and as a
    # literal (seed C06-k: `exposed / 8` picked a 64-bit conversion for u65..u71 named constants)
    for n in (9, 17, 31, 33, 63, 65, 68, 71, 73, 96, 127):
        v = (1 << (n - 1)) | (0x5 << (n // 2)) | 1
        progs.append(Program(f"dfc{n}", structs=[S(f"dfc{n}", n, [F("t", T_bool(), (n - 1, 1)), F("a", T_u(2), (0, 2))],
                                                  default=Default(v, "=" if n % 2 else ":", const_name=f"DFC{n}_DEFAULT"))], props=("C06",)))
    # non-zero literal defaults whose LOW 64 bits are all zero (an is-zero test done in u64), with default bits outside every writable field
    progs.append(Program("dfz", structs=[S("dfz128", 128, [F("a", T_u(8), (0, 8)), F("r", T_u(4), (64, 4), access="r")],
                                            default=Default(1 << 64, "="), name="Sdfz128"),
                                          S("dfz72", 72, [F("a", T_u(8), (8, 8))], default=Default(0xA5 << 64, ":"), name="Sdfz72"),
                                          S("dfz128b", 128, [F("a", T_u(16), (100, 16))], default=Default((1 << 127) | (1 << 64), "="), name="Sdfz128b")],
                         props=("C06", "C13", "C11")))
    for n in (33, 65, 71, 127):
        v = (1 << (n - 1)) | (0x3 << (n // 2)) | 2
        progs.append(Program(f"dfl{n}", structs=[S(f"dfl{n}", n, [F("t", T_bool(), (n - 1, 1)), F("a", T_u(2), (0, 2))],
                                                  default=Default(v, ":" if n % 2 else "="))], props=("C06",)))
    return progs


def programs_bases(tier):
    """C06/C11: every base width (thorough) with one field touching the top bit"""
    progs = []
    if tier != "thorough":
        return progs
    for n in range(1, 128):
        if n in NATIVE or n in ARB_Q:
            continue
        fields = [F("t", T_bool(), (n - 1, 1))]
        if n >= 2:
            fields.append(F("l", T_u(n - 1), (0, n - 1)))
        progs.append(Program(f"bw{n}", structs=[S(f"bw{n}", n, fields)], props=("C06", "C11", "C01", "C02")))
    return progs


ENUM_BITS_Q = (1, 2, 3, 7, 8, 9, 15, 16, 17, 31, 32, 33, 63, 64)


def programs_enums(tier):
    progs = []
    bits = ENUM_BITS_Q if tier == "quick" else tuple(range(1, 65))
    for n in bits:
        total = 1 << n
        es = []
        rep = "u64" if n >= 63 else None
        # non-exhaustive, with the extreme discriminants, declared out of order
        vals = [total - 1, 0] + ([total // 2] if total > 2 else [])
        vals = list(dict.fromkeys(v for v in vals if 0 <= v < total))
        if len(vals) == total:
            vals = vals[:-1] or vals
        if len(vals) < total:
            es.append(Enum(f"En{n}", n, [(f"V{i}", v) for i, v in enumerate(vals)], exhaustive=None if n % 2 else "false", repr=rep))
        if n <= 8 and (tier == "thorough" or n in (1, 2, 3, 8)):
            order = list(range(total))
            order = order[1:] + order[:1] if total > 1 else order       # rotated: the top value is NOT declared last
            order[0], order[-1] = order[-1], order[0]
            es.append(Enum(f"Ex{n}", n, [(f"V{v}", v) for v in order], exhaustive="true"))
        progs.append(Program(f"en{n}", enums=es, props=("C07", "C10", "C16")))
    # conditional enums: cfg-gated variants; exactly 2^N declared variants with a hole after cfg; more than 2^N declared
    c2 = Enum("Ec2", 2, [("A", 0), ("B", 1), ("C", 2, "off"), ("D", 3)], exhaustive="conditional")
    c2b = Enum("Ec2b", 2, [("A", 0), ("B", 1), ("C", 2, "off"), ("C2", 2, "on"), ("D", 3)], exhaustive="conditional")
    c3 = Enum("Ec3", 3, [("A", 7), ("B", 1, "off"), ("C", 4, "on")], exhaustive="conditional")
    progs.append(Program("encond", enums=[c2, c2b, c3], props=("C07", "C10", "C16")))
    return progs


def programs_enum_fields(tier):
    progs = []
    e1 = mk_enum("Ef1", 1, "true")
    e2x = mk_enum("Ef2x", 2, "true")
    e2 = mk_enum("Ef2", 2, None, values=[0, 1, 3])
    e3 = mk_enum("Ef3", 3, "false", values=[7, 0, 5])
    e8 = mk_enum("Ef8", 8, "false", values=[0, 0xFF, 0x80, 1])
    e16 = mk_enum("Ef16", 16, None, values=[0xFFFF, 0, 0x8000])
    e32 = mk_enum("Ef32", 32, "false", values=[0, 0xFFFFFFFF, 0x80000000])
    e64 = mk_enum("Ef64", 64, None, values=[0, (1 << 64) - 1, 1 << 63], repr_="u64")
    progs.append(Program("ef16", enums=[e1, e2x, e2, e3], structs=[S("ef16", 16, [
        F("a", T_enum(e1), (0, 1)),
        F("b", T_enum(e2x), (1, 2)),
        F("c", T_enum(e2), (3, 2)),
        F("d", T_enum(e3), (13, 3)),            # ends at the top bit
        F("g", T_enum(e1), (5, 1), array=(4, 2)),
    ])], props=("C08", "C16", "C12", "C13")))
    progs.append(Program("ef128", enums=[e8, e16, e32, e64], structs=[S("ef128", 128, [
        F("a", T_enum(e8), (1, 8)),              # native-width enum, unaligned, highest bit index 8
        F("b", T_enum(e16), (16, 16)),
        F("c", T_enum(e32), (32, 32)),
        F("d", T_enum(e64), (64, 64)),           # ends at the top bit
    ])], props=("C08", "C16")))
    progs.append(Program("ef64", enums=[e8], structs=[S("ef64", 64, [
        F("ops", T_enum(e8), (8, 8), array=(3, None)),      # native-width enum array NOT starting at bit 0
        F("ch", T_enum(e8), (36, 8), array=(2, 12)),
    ])], props=("C08", "C03", "C16")))
    e2n = mk_enum("Ef2n", 2, None, values=[3, 0, 1])
    e3n = mk_enum("Ef3n", 3, "false", values=[1, 7, 4, 2])
    progs.append(Program("ef32n", enums=[e2n, e3n], structs=[S("ef32n", 32, [
        F("mode", T_enum(e2n), [(3, 1), (6, 1)], array=(4, 8)),              # bits 3,6 / 11,14 / ...: first range not at bit 0
        F("prio", T_enum(e3n), [(1, 2), (5, 1)], array=(2, 16)),             # 1..=2,5 / 17..=18,21
        F("gap", T_enum(e2n), (24, 2), array=(2, 4)),                        # stride > width: gap bits 26,27 hold `keep`
        F("keep", T_u(2), (26, 2)),
    ])], props=("C08", "C03", "C04", "C16", "C12")))
    progs.append(Program("ef16d", enums=[e2n, e3n], structs=[S("ef16d", 32, [
        F("mode", T_enum(e2n), [(4, 1), (0, 1)], array=(2, 8)),              # DESCENDING list in an enum array: bits 4,0 / 12,8
        F("prio", T_enum(e3n), [(21, 2), (19, 1)], array=(2, 4), access="rw"),   # 21..=22,19 / 25..=26,23
    ])], props=("C08", "C03", "C04", "C16")))
    e8p = mk_enum("Ef8p", 8, "false", values=[0x99, 0x66, 0xF0, 1])
    in8p = Struct("In8p", 8, [F("lo", T_u(4), (0, 4)), F("hi", T_u(4), (4, 4))])
    progs.append(Program("effullnc", enums=[e8p], structs=[in8p, S("effullnc", 8, [
        F("op", T_enum(e8p), [(0, 2), (4, 4), (2, 2)]),                      # FULL-width custom-typed permutation starting at bit 0
    ]), S("effullnc2", 8, [F("hdr", FT("nested", 8, in8p), [(0, 4), (6, 2), (4, 2)])], name="Seffullnc2")], props=("C08", "C04", "C16")))
    e8f = mk_enum("Ef8f", 8, "false", values=[0, 0xFF, 0x80, 0x7F])
    in16 = Struct("In16", 16, [F("lo", T_u(8), (0, 8)), F("hi", T_u(8), (8, 8))])
    progs.append(Program("effull8", enums=[e8f], structs=[S("effull8", 8, [F("op", T_enum(e8f), (0, 8))])], props=("C08", "C16", "C13")))
    progs.append(Program("effull16", structs=[in16, S("effull16", 16, [F("inner", FT("nested", 16, in16), (0, 16))])], props=("C08", "C16", "C13")))
    # nested bitfields
    in8 = Struct("In8", 8, [F("lo", T_u(4), (0, 4)), F("hi", T_u(4), (4, 4))])
    in4 = Struct("In4", 4, [F("x", T_u(3), (0, 3)), F("y", T_bool(), (3, 1))])
    progs.append(Program("nest", structs=[in8, in4, S("nest", 32, [
        F("n8", FT("nested", 8, in8), (8, 8)),
        F("n4", FT("nested", 4, in4), (28, 4)),            # ends at the top bit
        F("m4", FT("nested", 4, in4), [(0, 2), (20, 2)]),  # nested type over two ranges
        F("a4", FT("nested", 4, in4), (2, 4), array=(1 + 1, None)),
    ])], props=("C08", "C16")))
    # custom types over lists of THREE pieces with holes (an unmasked middle piece picks up foreign bits) and over lists that START with
    # a single bit (a "1-bit custom type" shortcut keyed on ranges[0].len() == 1)
    e3p = mk_enum("Ef3p", 3, None, values=[5, 2, 7, 0])
    in3p = Struct("In3p", 3, [F("a", T_bool(), (0, 1)), F("b", T_u(2), (1, 2))])
    progs.append(Program("efpc", enums=[e3p, e8p], structs=[in3p, S("efpc16", 16, [
        F("mode", T_enum(e3p), [(1, 1), (5, 1), (9, 1)]),                 # bits 1, 5, 9
        F("op", T_enum(e3p), [(15, 1), (11, 2)]),                         # single bit FIRST, then a range
        F("n", FT("nested", 3, in3p), [(14, 1), (2, 1), (7, 1)]),         # nested, three single bits, descending start
        F("gap", T_u(2), (3, 2)),
    ], name="Sefpc16"), S("efpc32", 32, [
        F("op", T_enum(e8p), [(31, 1), (8, 7)]),                          # Option<8-bit enum>: top bit first, then 8..=14
        F("k", T_u(8), (16, 8)),
    ], name="Sefpc32")], props=("C08", "C04", "C16", "C12")))
    # WIDE nested bitfields (65..=128 bits): the raw value must pass through untruncated (seed C08-j: `as u64` on the way in)
    in100 = Struct("In100", 100, [F("lo", T_u(64), (0, 64)), F("mid", T_u(8), (64, 8)), F("top", T_u(4), (96, 4))])
    in72 = Struct("In72", 72, [F("lo", T_u(36), (0, 36)), F("hi", T_u(36), (36, 36))])
    progs.append(Program("nestw", structs=[in100, S("nestw", 128, [
        F("tag", T_u(8), (0, 8)),
        F("desc", FT("nested", 100, in100), (8, 100)),
        F("crc", T_u(20), (108, 20)),              # ends at the top bit
    ])], props=("C08", "C16")))
    progs.append(Program("nestw2", structs=[in72, S("nestw2", 128, [
        F("d", FT("nested", 72, in72), [(0, 40), (96, 32)]),   # wide nested type over two ranges, the second ending at the top bit
        F("k", T_u(56), (40, 56)),
    ])], props=("C08", "C04", "C16")))
    in80 = Struct("In80", 80, [F("payload", T_u(64), (8, 64)), F("tag", T_u(8), (0, 8)), F("crc", T_u(8), (72, 8))])
    progs.append(Program("nestw3", structs=[in80, S("nestw3", 120, [
        F("descriptor", FT("nested", 80, in80), [(60, 50), (4, 30)]),   # DESCENDING list: value bits 50..79 land in the low storage half
        F("k", T_u(4), (0, 4)),
    ])], props=("C08", "C04", "C11", "C16")))
    e10 = mk_enum("Ef10", 10, None, values=[0x3FF, 0, 0x2AA, 0x155, 1])
    in10 = Struct("In10", 10, [F("lo", T_u(5), (0, 5)), F("hi", T_u(5), (5, 5))])
    progs.append(Program("efw100", enums=[e10], structs=[in10, S("efw100", 100, [
        F("ops", T_enum(e10), [(0, 2), (3, 8)], array=(9, 11)),         # list-array of Option<enum> in 128-bit storage: elements cross bit 64
    ]), S("efw128", 128, [
        F("cells", FT("nested", 10, in10), [(5, 8), (0, 2)], array=(9, 14)),   # nested list-array, descending, element 4 straddles bit 64
    ], name="Sefw128")], props=("C08", "C04", "C03", "C11", "C16")))
    in128 = Struct("In128", 128, [F("lo", T_u(64), (0, 64)), F("hi", T_u(64), (64, 64))])
    progs.append(Program("nestfull128", structs=[in128, S("nestfull128", 128, [F("inner", FT("nested", 128, in128), (0, 128))])],
                         props=("C08", "C16")))
    if tier == "thorough":
        e8x = Enum("Ef8x", 8, [(f"V{v}", v) for v in range(256)], exhaustive="true")
        e4m = mk_enum("Ef4m", 4, None, values=[9, 1, 15])
        progs.append(Program("ef32x", enums=[e8x, e4m], structs=[S("ef32x", 32, [
            F("x", T_enum(e8x), (24, 8)),
            F("y", T_enum(e8x), (4, 8)),
            F("m", T_enum(e4m), [(0, 2), (14, 2)]),
            F("am", T_enum(e4m), [(16, 2), (20, 2)], array=(2, 2)),     # interleaved non-contiguous enum array
        ])], props=("C08", "C04", "C16")))
    return progs


def programs_history(tier):
    """C12: overlapping fields (legal, no builder) and disjoint ones, arrays included"""
    progs = []
    progs.append(Program("ov32", structs=[S("ov32", 32, [
        F("whole", T_u(32), (0, 32)),
        F("lo", T_u(16), (0, 16)),
        F("mid", T_u(8), (12, 8)),
        F("top", T_bool(), (31, 1)),
        F("nib", T_u(4), (0, 4), array=(4, None)),
    ])], props=("C12", "C16", "C14")))
    progs.append(Program("ov24", structs=[S("ov24", 24, [
        F("a", T_u(12), (0, 12)),
        F("b", T_u(12), (12, 12)),
        F("x", T_u(8), [(20, 4), (8, 4)]),
        F("s", T_i(8), (8, 8)),
    ])], props=("C12", "C11", "C16")))
    return progs


def programs_builder(tier):
    progs = []
    e2 = mk_enum("Eb2", 2, None, values=[0, 1, 3])
    e1 = mk_enum("Eb1", 1, "true")
    progs.append(Program("bl16", enums=[e2, e1], structs=[S("bl16", 16, [
        F("e", T_enum(e2), (0, 2)),
        F("arr", T_enum(e1), (2, 1), array=(3, None)),
        F("ro", T_u(3), (9, 3), access="r"),
        F("s", T_i(8), [(5, 2), (12, 4), (7, 2)], access="w"),   # bits 5,6 | 12..15 | 7,8
    ], default=Default(0x8F00))], props=("C13", "C14", "C17", "C16")))
    progs.append(Program("bl8", structs=[S("bl8", 8, [
        F("a", T_u(3), (0, 3)), F("b", T_bool(), (3, 1)), F("c", T_u(4), (4, 4)),
    ])], props=("C13", "C14")))                     # complete, no default
    progs.append(Program("bl24", structs=[S("bl24", 24, [
        F("a", T_u(12), (0, 12)), F("b", T_u(4), (12, 4), array=(3, None)),
    ])], props=("C13", "C11", "C14")))            # arbitrary base, complete, ZERO start
    progs.append(Program("bl128", structs=[S("bl128", 128, [
        F("a", T_u(64), (0, 64)), F("b", T_i(32), (64, 32)), F("c", T_u(31), (96, 31)), F("t", T_bool(), (127, 1)),
    ])], props=("C13", "C14")))
    progs.append(Program("bl32", structs=[S("bl32", 32, [
        F("a", T_u(32), (0, 32)),
    ])], props=("C13",)))                           # one full-width field
    progs.append(Program("bl16r", structs=[S("bl16r", 16, [
        F("k", T_u(8), (0, 8), access="r"),        # read-only field with non-zero default bits, gap-free layout
        F("v", T_u(4), (8, 4), array=(2, None)),
    ], default=Default(0x5AC3))], props=("C13", "C14", "C17")))
    progs.append(Program("bl64", structs=[S("bl64", 64, [
        F("en", T_bool(), (0, 1), array=(24, 2)),              # 24 elements (> 16), stride 2: bits 0,2,..,46
        F("hi", T_u(16), (48, 16)),
    ], default=Default(0xAAAA_0000_0000_0000 >> 0))], props=("C13", "C14", "C03")))
    progs.append(Program("bl9", structs=[S("bl9", 9, [
        F("x", T_u(4), [(0, 1), (2, 1), (4, 1), (6, 1)], array=(2, 1), access="w"),
        F("t", T_bool(), (8, 1)),
    ], default=Default(0x1FF))], props=("C13", "C11", "C04")))
    return progs


def programs_surface(tier):
    """declaration surface: raw identifiers, doc comments, qualified type paths, user derives, private structs, argument order,
    legacy `:` spellings.  None of it may change the generated behaviour."""
    progs = []
    el = Enum("Esf2", 2, [("A", 0), ("B", 1), ("C", 2), ("D", 3)], exhaustive="true", legacy_colon=True)     # #[bitenum(u2, exhaustive : true)]
    f_type = F("r#type", T_u(3), (0, 3)); f_type.doc = "the kind (a keyword used as field name)"
    f_loop = F("r#loop", T_bool(), (3, 1)); f_loop.doc = "documented flag"
    f_q = F("q", T_u(5), (4, 5)); f_q.qualified = True
    f_arr = F("r#match", T_u(2), (9, 2), array=(2, None)); f_arr.doc = "raw identifier on an array field"
    f_e = F("r#enum", T_enum(el), (13, 2))
    st = Struct("Ssurf", 16, [f_type, f_loop, f_q, f_arr, f_e], default=Default(0x8000, ":"), derives=("PartialEq", "Eq"), vis="")
    assert st.valid()
    progs.append(Program("surf", enums=[el], structs=[st], props=("C01", "C02", "C03", "C08", "C13", "C14", "C17", "C16", "C12", "C07")))
    # field identifiers that look like generated names
    nm = Struct("Ssurfn", 32, [F("set_point", T_u(12), (0, 12)), F("with_mask", T_u(4), (12, 4), array=(2, None)), F("get", T_bool(), (20, 1)),
                               F("build_id", T_u(8), (24, 8), access="r")], default=Default(0x11000000, "="))
    assert nm.valid()
    progs.append(Program("surfn", structs=[nm], props=("C01", "C02", "C03", "C13", "C14", "C15", "C17", "C16")))
    d1 = Struct("Ssurfd", 8, [F("r#fn", T_u(4), (0, 4)), F("x", T_bool(), (7, 1))], default=Default(0x10, "="), debug=True, debug_first=True, vis="pub(crate)")
    assert d1.valid()
    progs.append(Program("surfd", structs=[d1], props=("C19", "C06", "C13")))
    return progs


def programs_access(tier):
    """C17: every field kind x every access specifier"""
    e2 = mk_enum("Eac2", 2, None, values=[0, 1, 3])
    fields = []
    pos = 0
    for kind in ("u4", "bool", "arr", "nc", "enum", "i8", "optarr"):
        for acc_ in ("r", "w", "rw", ""):
            nm = f"{kind}_{acc_ or 'none'}"
            if kind == "u4":
                fields.append(F(nm, T_u(4), (pos, 4), access=acc_)); pos += 4
            elif kind == "bool":
                fields.append(F(nm, T_bool(), (pos, 1), access=acc_)); pos += 1
            elif kind == "arr":
                fields.append(F(nm, T_u(2), (pos, 2), array=(2, None), access=acc_)); pos += 4
            elif kind == "nc":
                fields.append(F(nm, T_u(4), [(pos, 2), (pos + 4, 2)], access=acc_)); pos += 6
            elif kind == "enum":
                fields.append(F(nm, T_enum(e2), (pos, 2), access=acc_)); pos += 2
            elif kind == "i8":
                fields.append(F(nm, T_i(8), (pos, 8), access=acc_)); pos += 8
            elif kind == "optarr":
                fields.append(F(nm, T_enum(e2), (pos, 2), array=(2, 3), access=acc_)); pos += 6
    progs = [Program("ac128", enums=[e2], structs=[S("ac128", 128, fields, default=Default(0x5))], props=("C17", "C14"))]
    # the same without default and with gaps: no builder; and an all-read-only struct
    progs.append(Program("ac16", structs=[S("ac16", 16, [
        F("a", T_u(4), (0, 4), access="r"), F("b", T_u(4), (4, 4), access="w"), F("c", T_u(4), (8, 4), access=""),
        F("d", T_u(4), (12, 4), access="rw")])], props=("C17", "C14")))
    for acc_ in ("r", "w", ""):
        nm = acc_ or "none"
        progs.append(Program(f"ac32{nm}", structs=[S(f"ac32{nm}", 32, [F("all", T_u(32), (0, 32), access=acc_)], default=Default(0x12345678))],
                             props=("C17", "C14")))
    # whole-register plain fields on ARBITRARY bases, and scalar u1 fields, with one-sided access (round-7 seeds C17-m/n)
    for acc_ in ("r", "w", ""):
        nm = acc_ or "none"
        progs.append(Program(f"ac24{nm}", structs=[S(f"ac24{nm}", 24, [F("all", T_u(24), (0, 24), access=acc_)], default=Default(0xABCDEF))],
                             props=("C17", "C14", "C11")))
    progs.append(Program("acu1", structs=[S("acu1", 8, [
        F("ro", T_u(1), (0, 1), access="r"), F("wo", T_u(1), (1, 1), access="w"), F("no", T_u(1), (2, 1), access=""),
        F("both", T_u(1), (3, 1), access="rw"), F("rest", T_u(4), (4, 4))], default=Default(0x05))], props=("C17", "C14", "C01", "C02")))
    progs.append(Program("acu1n", structs=[S("acu1n", 8, [                                   # the same without default: no builder
        F("ro", T_u(1), (0, 1), access="r"), F("wo", T_u(1), (1, 1), access="w"), F("no", T_u(1), (2, 1), access=""),
        F("both", T_u(1), (3, 1), access="rw")])], props=("C17", "C14")))
    progs.append(Program("ac64r", structs=[S("ac64r", 64, [F("all", T_i(64), (0, 64), access="r")])], props=("C17", "C14")))
    progs.append(Program("ac8ro", structs=[S("ac8ro", 8, [
        F("a", T_u(4), (0, 4), access="r"), F("b", T_bool(), (7, 1), access="r")], default=Default(0x81))], props=("C17", "C14")))
    return progs


def programs_c14(tier):
    """C14: builder exists exactly when sound (decl names say what the rule expects)"""
    progs = []

    def add(pid, base, fields, default=None, extra=()):
        progs.append(Program(pid, structs=[S(pid, base, fields, default=default)], props=("C14",) + tuple(extra)))
    add("kcomplete", 8, [F("a", T_u(4), (0, 4)), F("b", T_u(4), (4, 4))])
    add("kincomplete", 8, [F("a", T_u(4), (0, 4)), F("b", T_u(3), (4, 3))])                       # bit 7 uncovered, no default -> none
    add("kincdef", 8, [F("a", T_u(4), (0, 4)), F("b", T_u(3), (4, 3))], Default(0x80), extra=("C13",))
    add("koverlap", 16, [F("a", T_u(8), (0, 8)), F("b", T_u(8), (4, 8))], Default(0))             # overlapping fields -> none
    add("koverlaparr", 16, [F("a", T_u(4), [(0, 2), (4, 2)], array=(2, 4))], Default(0))          # element 1 overlaps element 0 -> none
    add("kselfov", 16, [F("a", T_u(8), [(0, 4), (2, 4)])], Default(0), extra=("C16",))             # self-overlapping range list -> none
    add("kselfov2", 32, [F("a", T_u(12), [(8, 8), (12, 4)]), F("b", T_u(8), (24, 8))], Default(0), extra=("C16",))
    add("kselfov3", 16, [F("f", T_u(12), [(8, 8), (12, 4)])], Default(0), extra=("C16",))           # overlap touching the top bit
    add("kselfov4", 8, [F("a", T_u(16), [(0, 8), (0, 8)], access="r")], Default(0), extra=("C16",))   # a listed range as wide as the storage (read-only: the writable form dies in a const-eval overflow error)
    add("koverlaparr5", 16, [F("a", T_u(4), [(0, 2), (4, 2)], array=(2, 5))], Default(0))          # stride = span - 1: bit 5 is the top of element 0 AND the bottom of element 1 -> none
    add("koverlaparr6", 16, [F("a", T_u(4), [(0, 2), (4, 2)], array=(2, 6))], Default(0))          # stride = span: disjoint -> builder
    add("koverlaparr7", 32, [F("n", T_u(4), [(12, 2), (0, 2)], array=(4, 4))], Default(0))         # descending list, n[0] and n[3] share bits 12..=13 -> none
    add("koverlaparr3", 32, [F("p", T_u(4), [(0, 2), (8, 2)], array=(3, 4))], Default(0))           # elements 0 and 2 share bits 8..=9 (neighbours are disjoint) -> none
    add("ktop127ro", 128, [F("lo", T_u(64), (0, 64)), F("hi", T_u(63), (64, 63)), F("busy", T_bool(), (127, 1), access="r")])   # top bit read-only, no default -> none
    add("ktop127un", 128, [F("lo", T_u(64), (0, 64)), F("hi", T_u(63), (64, 63))])                  # top bit undeclared, no default -> none
    add("kroselfov", 32, [F("a", T_u(8), (0, 8)), F("win", T_u(8), [(16, 4), (18, 4)], access="r")], Default(0x00AB0000), extra=("C13", "C17"))   # read-only self-overlapping view: builder still due
    add("kroalias", 16, [F("divider", T_u(4), (8, 4)), F("fast", T_bool(), (11, 1), access="r"), F("lowv", T_u(8), (0, 8), access="r")], Default(0x0800), extra=("C13", "C17"))   # read-only alias AFTER the writable field
    add("kroalias2", 16, [F("fast", T_bool(), (11, 1), access="r"), F("divider", T_u(4), (8, 4))], Default(0), extra=("C13", "C17"))
    add("karb72", 72, [F("payload", T_u(64), (0, 64)), F("tag", T_u(8), (64, 8))], extra=("C13", "C11"))   # complete u72 (storage u128), no default -> builder
    add("karb127", 127, [F("lo", T_u(64), (0, 64)), F("hi", T_u(63), (64, 63))], extra=("C13",))            # complete u127, no default -> builder
    add("karb65inc", 65, [F("lo", T_u(64), (0, 64))])                                                    # bit 64 uncovered, no default -> none
    add("krogap", 8, [F("a", T_u(4), (0, 4)), F("r", T_u(4), (4, 4), access="r")])                 # read-only bits uncovered, no default -> none
    add("krogapdef", 8, [F("a", T_u(4), (0, 4)), F("r", T_u(4), (4, 4), access="r")], Default(0xA0), extra=("C13",))
    add("karb", 12, [F("a", T_u(4), (0, 4)), F("b", T_u(8), (4, 8))], extra=("C13", "C11"))       # arbitrary base complete -> builder
    add("karbinc", 12, [F("a", T_u(4), (0, 4)), F("b", T_u(7), (4, 7))])                            # bit 11 uncovered -> none
    add("kwo", 8, [F("a", T_u(4), (0, 4), access="w"), F("b", T_u(4), (4, 4), access="w")], extra=("C13",))   # write-only fields complete -> builder
    add("kinter", 8, [F("x", T_u(4), [(0, 1), (2, 1), (4, 1), (6, 1)], array=(2, 1))], extra=("C13",))        # interleaved, disjoint, complete
    add("karrov", 16, [F("a", T_u(4), (0, 4), array=(2, None)), F("b", T_u(4), (4, 4))], Default(0))           # array element overlaps a field -> none
    add("knowr", 8, [F("a", T_u(4), (0, 4), access="r")], Default(0x0F), extra=("C13",))           # no writable field, default -> builder().build()
    add("kfull128", 128, [F("a", T_u(128), (0, 128))], extra=("C13",))
    return progs


def programs_debug(tier):
    progs = []
    progs.append(Program("dbg8", structs=[S("dbg8", 8, [
        F("flag", T_bool(), (0, 1)), F("n", T_u(3), (1, 3)), F("m", T_u(4), (4, 4), access="r")], debug=True)], props=("C19",)))
    e2 = mk_enum("Edb2", 2, None, values=[0, 1, 3])
    e1 = mk_enum("Edb1", 1, "true")
    progs.append(Program("dbg16", enums=[e2, e1], structs=[S("dbg16", 16, [
        F("s", T_i(8), (0, 8)), F("e", T_enum(e2), (8, 2)), F("x", T_enum(e1), (10, 1)),
        F("nc", T_u(4), [(13, 2), (11, 2)]), F("t", T_bool(), (15, 1))], debug=True)], props=("C19",)))
    in4 = Struct("In4d", 4, [F("x", T_u(3), (0, 3)), F("y", T_bool(), (3, 1))], debug=True)
    progs.append(Program("dbgn", structs=[in4, S("dbgn", 16, [
        F("inner", FT("nested", 4, in4), (0, 4)), F("b", T_u(8), (4, 8)), F("hi", T_u(3), (13, 3))], debug=True)], props=("C19",)))
    progs.append(Program("dbgov", structs=[S("dbgov", 16, [
        F("data", T_u(8), (0, 8)), F("control", T_u(8), (8, 8)), F("divider", T_u(4), (8, 4)),     # divider overlaps control (legal, no builder)
        F("parity", T_bool(), (12, 1)), F("enable", T_bool(), (15, 1))], debug=True)], props=("C19",)))
    progs.append(Program("dbg12", structs=[S("dbg12", 12, [
        F("a", T_u(12), (0, 12))], debug=True)], props=("C19",)))
    # native-execution only ("C19n": too wide for the Kani part): whole-register signed fields (a Debug that borrows the storage prints
    # the unsigned raw value, seed C19-l) and 128-bit native fields (a "64-bit fast path" in Debug, seed C19-k)
    progs.append(Program("dbgw", structs=[
        S("dbgw8", 8, [F("t", T_i(8), (0, 8))], debug=True, name="Sdbgw8"),
        S("dbgw16", 16, [F("celsius", T_i(16), (0, 16))], debug=True, name="Sdbgw16"),
        S("dbgw64", 64, [F("a", T_i(64), (0, 64))], debug=True, name="Sdbgw64"),
        S("dbgw32", 32, [F("lo", T_u(16), (0, 16)), F("hi", T_i(16), (16, 16))], debug=True, name="Sdbgw32"),
    ], props=("C19n",)))
    progs.append(Program("dbgw128", structs=[
        S("dbgi128", 128, [F("v", T_i(128), (0, 128))], debug=True, name="Sdbgi128"),
        S("dbgu128", 128, [F("u", T_u(128), (0, 128))], debug=True, name="Sdbgu128"),
        S("dbgl128", 128, [F("x", T_i(128), [(64, 64), (0, 64)])], debug=True, name="Sdbgl128"),
        S("dbgm128", 128, [F("a", T_i(64), (64, 64)), F("b", T_u(64), (0, 64))], debug=True, name="Sdbgm128"),
        S("dbg100", 100, [F("top", T_i(64), (36, 64)), F("k", T_u(36), (0, 36))], debug=True, name="Sdbg100"),
    ], props=("C19n",)))
    progs.append(Program("dbgcnt", structs=[
        S("dbg24", 32, [F(f"f{i}", T_bool(), (i, 1)) for i in range(24)], debug=True, name="Sdbg24"),
        S("dbg25", 32, [F(f"g{i}", T_bool(), (i, 1)) for i in range(25)], debug=True, name="Sdbg25"),
        S("dbg48", 64, [F(f"h{i}", T_bool(), (i, 1)) for i in range(48)], debug=True, name="Sdbg48"),
    ], props=("C19n",)))
    if tier == "thorough":
        e3 = mk_enum("Edb3", 3, "false", values=[7, 0, 5])
        progs.append(Program("dbg32", enums=[e3], structs=[S("dbg32", 32, [
            F("s", T_i(8), (0, 8)), F("h", T_u(16), (8, 16)), F("e", T_enum(e3), (24, 3)), F("q", T_u(5), (27, 5))], debug=True)], props=("C19",)))
    return progs


def random_programs(seed, count):
    """VERIF_SEED-driven layouts (thorough tier): random base, random non-overlapping fields of every kind.
    Only the layouts depend on the seed; every obligation on them still quantifies over all inputs."""
    rnd = random.Random(seed * 7919 + 17)
    progs = []
    tries = 0
    while len(progs) < count and tries < count * 20:
        tries += 1
        k = len(progs)
        pid = f"rnd{k}"
        base = rnd.choice([8, 16, 32, 64, 128, rnd.randint(2, 127), rnd.randint(2, 127)])
        enums, fields, inners, pos = [], [], [], rnd.choice([0, 0, 1])
        while pos < base and len(fields) < 6:
            room = base - pos
            kind = rnd.choice(["bool", "u", "u", "u", "i", "arr", "nc", "enum", "arrb", "ncarr", "iarr", "earr",
                               "ncw", "ncw", "nested", "ncenum"])
            acc_ = rnd.choice(["rw", "rw", "rw", "r", "w"])
            nm = f"f{len(fields)}"
            sty = rnd.choice(["std", "std", "std", "access_first", "stride_first", "stride_mid", "stride_first_colon", "zpad", "range1"])
            nfields = len(fields)
            if kind == "bool":
                fields.append(F(nm, T_bool(), (pos, 1), access=acc_)); pos += 1
            elif kind == "u":
                n = rnd.randint(1, min(room, rnd.choice([3, 8, 17, 64, 128])))
                fields.append(F(nm, T_u(n), (pos, n), access=acc_)); pos += n
            elif kind == "i":
                cands = [n for n in (8, 16, 32, 64) if n <= room]
                if not cands:
                    continue
                n = rnd.choice(cands)
                fields.append(F(nm, T_i(n), (pos, n), access=acc_)); pos += n
            elif kind in ("arr", "arrb"):
                n = 1 if kind == "arrb" else rnd.randint(1, 9)
                stride = n + rnd.choice([0, 0, 1, 3])
                kmax = (room - n) // stride + 1 if room >= n else 0
                if kmax < 2:
                    continue
                K = rnd.randint(2, min(kmax, 5))
                ty = T_bool() if kind == "arrb" else T_u(n)
                fields.append(F(nm, ty, (pos, n), array=(K, None if stride == n and rnd.random() < 0.5 else stride), access=acc_))
                pos += (K - 1) * stride + n
            elif kind == "nc":
                a, g, b = rnd.randint(1, 4), rnd.randint(1, 3), rnd.randint(1, 4)
                if a + g + b > room:
                    continue
                rs = [(pos, a), (pos + a + g, b)]
                if rnd.random() < 0.5:
                    rs.reverse()
                fields.append(F(nm, T_u(a + b), rs, access=acc_)); pos += a + g + b
            elif kind == "ncw":
                # a WIDE list field: 2-4 ranges of unequal lengths, shuffled, with gaps; native totals (8/16/32/64) and signed
                # types are drawn on purpose (the narrowing casts of native-typed fields are where list fields go wrong)
                total = rnd.choice([8, 16, 32, 64, rnd.randint(2, 70), rnd.randint(2, 20)])
                parts = rnd.randint(2, 4)
                if total < parts:
                    continue
                cuts = sorted(rnd.sample(range(1, total), parts - 1))
                lens = [b - a for a, b in zip([0] + cuts, cuts + [total])]
                gaps = [rnd.choice([0, 1, 1, 2, 5]) for _ in lens]
                gaps[0] = rnd.choice([0, 0, 1])
                if total + sum(gaps) > room:
                    continue
                rs, q = [], pos
                for ln, g in zip(lens, gaps):
                    q += g
                    rs.append((q, ln)); q += ln
                # adjacent entries are legal; merge nothing, but shuffle the declaration order
                rnd.shuffle(rs)
                signed = total in (8, 16, 32, 64) and rnd.random() < 0.35
                fields.append(F(nm, T_i(total) if signed else T_u(total), rs, access=acc_)); pos = q
            elif kind == "nested":
                n = rnd.choice([rnd.randint(2, 9), rnd.randint(2, 64), rnd.randint(65, 128), 8, 16, 32, 64])
                if n > room:
                    n = room
                if n < 2:
                    continue
                inner = Struct(f"Irnd{k}x{len(fields)}", n, [F("lo", T_u(n // 2), (0, n // 2)), F("hi", T_u(n - n // 2), (n // 2, n - n // 2))])
                split = n >= 4 and room >= n + 2 and rnd.random() < 0.4
                if split:
                    a = rnd.randint(1, n - 1)
                    rs = [(pos, a), (pos + a + 2, n - a)]
                    if rnd.random() < 0.5:
                        rs.reverse()
                    fields.append(F(nm, FT("nested", n, inner), rs, access=acc_)); pos += n + 2
                else:
                    fields.append(F(nm, FT("nested", n, inner), (pos, n), access=acc_)); pos += n
                inners.append(inner)
            elif kind == "ncenum":
                n = rnd.randint(2, 4)
                if n + 2 > room:
                    continue
                total = 1 << n
                vals = sorted(rnd.sample(range(total), rnd.randint(1, total - 1)))
                if (total - 1) not in vals:
                    vals[-1] = total - 1          # the all-ones discriminant exercises every range of the list
                rnd.shuffle(vals)
                e = Enum(f"Ernd{k}x{len(enums)}", n, [(f"V{i}", v) for i, v in enumerate(vals)], exhaustive=None)
                enums.append(e)
                a = rnd.randint(1, n - 1)
                rs = [(pos, a), (pos + a + rnd.choice([1, 2]), n - a)]
                end = rs[1][0] + rs[1][1]
                if end > base:
                    enums.pop()
                    continue
                if rnd.random() < 0.5:
                    rs.reverse()
                fields.append(F(nm, T_enum(e), rs, access=acc_)); pos = end
            elif kind == "ncarr":
                a, g, b = rnd.randint(1, 3), rnd.randint(0, 2), rnd.randint(1, 3)
                span = a + g + b
                stride = span + rnd.choice([0, 1, 3])
                kmax = (room - span) // stride + 1 if room >= span else 0
                if kmax < 2:
                    continue
                K = rnd.randint(2, min(kmax, 4))
                rs = [(pos, a), (pos + a + g, b)]
                if rnd.random() < 0.5:
                    rs.reverse()
                fields.append(F(nm, T_u(a + b), rs, array=(K, stride), access=acc_)); pos += (K - 1) * stride + span
            elif kind == "iarr":
                cands = [n for n in (8, 16, 32) if 2 * n <= room]
                if not cands:
                    continue
                n = rnd.choice(cands)
                stride = n + rnd.choice([0, 0, 8])
                kmax = (room - n) // stride + 1
                if kmax < 2:
                    continue
                K = rnd.randint(2, min(kmax, 3))
                fields.append(F(nm, T_i(n), (pos, n), array=(K, None if stride == n else stride), access=acc_)); pos += (K - 1) * stride + n
            elif kind == "earr":
                n = rnd.randint(1, min(3, room))
                total = 1 << n
                vals = sorted(rnd.sample(range(total), max(1, total - 1)))
                rnd.shuffle(vals)
                e = Enum(f"Ernd{k}x{len(enums)}", n, [(f"V{i}", v) for i, v in enumerate(vals)], exhaustive=None)
                stride = n + rnd.choice([0, 1, 2])
                kmax = (room - n) // stride + 1
                if kmax < 2:
                    continue
                K = rnd.randint(2, min(kmax, 4))
                enums.append(e)
                fields.append(F(nm, T_enum(e), (pos, n), array=(K, None if stride == n else stride), access=acc_)); pos += (K - 1) * stride + n
            elif kind == "enum":
                n = rnd.randint(1, min(3, room))
                total = 1 << n
                ex = rnd.random() < 0.4
                vals = list(range(total)) if ex else sorted(rnd.sample(range(total), rnd.randint(1, total - 1) if total > 1 else 1))
                if not ex and len(vals) == total:
                    vals = vals[:-1]
                rnd.shuffle(vals)
                e = Enum(f"Ernd{k}x{len(enums)}", n, [(f"V{i}", v) for i, v in enumerate(vals)], exhaustive="true" if ex else None)
                enums.append(e)
                fields.append(F(nm, T_enum(e), (pos, n), access=acc_)); pos += n
            if len(fields) > nfields:
                fields[-1].style = sty
            pos += rnd.choice([0, 0, 0, 1, 2])
        if not fields:
            continue
        default = None
        if rnd.random() < 0.5:
            default = Default(rnd.getrandbits(base), rnd.choice(["=", ":"]))
        try:
            st = S(pid, base, fields, default=default)
        except AssertionError:
            continue
        progs.append(Program(pid, enums=enums, structs=inners + [st],
                             props=("C01", "C02", "C03", "C04", "C05", "C06", "C08", "C11", "C12", "C13", "C16", "C17", "C14")))
    return progs


def all_programs(tier, seed=0):
    progs = []
    progs += programs_contiguous(tier)
    progs += programs_arrays(tier)
    progs += programs_noncontig(tier)
    progs += programs_signed(tier)
    progs += programs_defaults(tier)
    progs += programs_bases(tier)
    progs += programs_enums(tier)
    progs += programs_enum_fields(tier)
    progs += programs_history(tier)
    progs += programs_builder(tier)
    progs += programs_access(tier)
    progs += programs_c14(tier)
    progs += programs_debug(tier)
    progs += programs_surface(tier)
    # VERIF_SEED-driven layouts: 40 in the thorough tier, 10 in the quick tier (only the layouts depend on the seed)
    progs += random_programs(seed, 40 if tier == "thorough" else 10)
    ids = [p.pid for p in progs]
    assert len(ids) == len(set(ids))
    only = os.environ.get("VERIF_ONLY")   # debugging aid (never set by a registered command): restrict the corpus to the named programs
    if only:
        progs = [p for p in progs if p.pid in only.split(",")]
    return progs
