"""The corpus: which declarations the stage-2 properties are proved on (DESIGN.md section 3).
Deterministic; the thorough tier adds systematically enumerated and VERIF_SEED-driven layouts."""
import random
from .model import *

ARB_Q = (1, 7, 9, 15, 17, 24, 31, 33, 48, 63, 65, 127)


def _ft_for(n):
    return T_bool() if n == 0 else T_u(n)


def contiguous_struct(pid, base, placements, access="rw", default=None, name=None):
    """placements: [(lo, n, kind)] kind in 'u' (uint/native by width), 'b' (bool)"""
    fields = []
    for k, (lo, n, kind) in enumerate(placements):
        ty = T_bool() if kind == "b" else T_u(n)
        fields.append(Field(f"f{k}", ty, [(lo, n)], access=access))
    return Struct(name or f"S{pid}", base, fields, default=default)


def boundary_placements(base):
    """bit 0, unaligned interior, ending at the top bit, full width, one below full width, bools at both ends"""
    W = base
    out = []
    out.append((0, 1, "b"))
    out.append((W - 1, 1, "b"))
    if W >= 3:
        out.append((1, min(W - 2, 5), "u"))           # unaligned interior
        out.append((W - min(W - 1, 3), min(W - 1, 3), "u"))   # ending at the top bit
    if W >= 2:
        out.append((0, W - 1, "u"))                   # one below full width
        out.append((1, W - 1, "u"))                   # one below, touching the top
    if W <= 128:
        out.append((0, W, "u"))                       # full width (special-cased in the generator)
    for n in (8, 16, 32, 64):
        if n < W:
            out.append((W - n, n, "u"))               # native type ending at the top bit
            if W - n - 1 >= 0 and n + 1 < W:
                out.append((1, n, "u"))               # native type, unaligned
    if W > 9:
        out.append((3, 9, "u"))
    # drop duplicates and anything not expressible (a full-width field of an arbitrary base is uN itself: fine)
    seen, res = set(), []
    for lo, n, k in out:
        if n < 1 or lo + n > W or (lo, n, k) in seen:
            continue
        if k == "u" and n == 1 and False:
            continue
        seen.add((lo, n, k))
        res.append((lo, n, k))
    return res


def all_ranges(W):
    return [(lo, n, "u") for lo in range(W) for n in range(1, W - lo + 1)]


def programs_c01_c02(tier):
    progs = []
    bases = [8, 16, 32, 64, 128] + list(ARB_Q)
    if tier == "quick":
        # every base with its boundary placements, fields spread over few structs
        for b in bases:
            pl = boundary_placements(b)
            if tier == "quick" and b not in (8, 32, 128, 7, 24, 33, 127):
                pl = pl[:6]
            progs.append(Program(f"bd{b}", structs=[contiguous_struct(f"bd{b}", b, pl)], props=("C01", "C02", "C16", "C06", "C11" if b not in NATIVE else "C06", "C12")))
        # exhaustive small bases
        progs.append(Program("all5", structs=[contiguous_struct("all5", 5, all_ranges(5))], props=("C01", "C02")))
    else:
        for b in bases:
            progs.append(Program(f"bd{b}", structs=[contiguous_struct(f"bd{b}", b, boundary_placements(b))],
                                 props=("C01", "C02", "C16", "C06", "C11", "C12")))
        progs.append(Program("all5", structs=[contiguous_struct("all5", 5, all_ranges(5))], props=("C01", "C02", "C16")))
        progs.append(Program("all8", structs=[contiguous_struct("all8", 8, all_ranges(8))], props=("C01", "C02", "C16")))
    return progs


def all_programs(tier, seed=0):
    progs = []
    progs += programs_c01_c02(tier)
    return progs
