// spec.rs -- the contract language: what "bits lo..=hi of r" and "rewrite exactly the field" mean.
// Written bit by bit from the property text (C01-C05), NOT from the shift-and-mask formula the macro emits.
// A range is (lo, n): n bits starting at bit lo, LSB0.  `shift` moves every range up (index * stride for arrays).
// The first range of the list supplies the least significant bits of the field value (C04).
//
// The adequacy of these loops against the per-bit mathematical definition is proved in Verus
// (meta/adequacy.rs re-reads this very file, see DESIGN.md 4.4).  //@ comments are Verus anchors.

/// bits of `raw` selected by the ordered range list, first range least significant
pub const fn get_spec(raw: u128, ranges: &[(usize, usize)], shift: usize) -> u128 {
    let mut acc = 0u128;
    let mut t = 0;
    let mut i = 0;
    while i < ranges.len() {
        let (lo, n) = ranges[i];
        let mut j = 0;
        while j < n {
            if (raw >> (lo + shift + j)) & 1 == 1 {
                acc |= 1u128 << (t + j);
            }
            j += 1;
        }
        t += n;
        i += 1;
    }
    acc
}

/// `raw` with exactly the listed positions replaced by the corresponding bits of `v`; every other bit kept
pub const fn put_spec(raw: u128, ranges: &[(usize, usize)], shift: usize, v: u128) -> u128 {
    let mut acc = raw;
    let mut t = 0;
    let mut i = 0;
    while i < ranges.len() {
        let (lo, n) = ranges[i];
        let mut j = 0;
        while j < n {
            let pos = lo + shift + j;
            acc = (acc & !(1u128 << pos)) | (((v >> (t + j)) & 1) << pos);
            j += 1;
        }
        t += n;
        i += 1;
    }
    acc
}

/// type invariant of an N-bit register held in a wider integer: no bit at or above n is set
pub const fn fits(raw: u128, n: usize) -> bool {
    n >= 128 || (raw >> n) == 0
}
