// spec.rs -- the contract language: what "bits lo..=hi of r" and "rewrite exactly the field" mean.
// Written bit by bit from the property text (C01-C05), NOT from the shift-and-mask formula the macro emits.
// A range is (lo, n): n bits starting at bit lo, LSB0.  `shift` moves every range up (index * stride for arrays).
// The first range of the list supplies the least significant bits of the field value (C04).
//
// This very file is proved in Verus against the per-bit model of meta/prelude.rs on every META run: lines starting
// with `//@` are Verus clauses (requires / ensures / invariant / decreases / proof blocks) that the META build uncomments;
// `//@ret r` names the return value of the signature above it.  Nothing else is changed.  For rustc and Kani the `//@`
// lines are comments.

/// bits of `raw` selected by the ordered range list, first range least significant
pub const fn get_spec(raw: u128, ranges: &[(usize, usize)], shift: usize) -> u128
//@ret r
//@    requires ranges_ok(ranges@, shift as int)
//@    ensures forall|k: int| 0 <= k < 128 ==> bit(r, k) == get_model(raw, ranges@, shift as int, ranges@.len() as int, k)
{
    let mut acc = 0u128;
    let mut t: usize = 0;
    let mut i: usize = 0;
    //@ proof { assert forall|k: int| 0 <= k < 128 implies bit(acc, k) == get_model(raw, ranges@, shift as int, 0, k) by { lemma_zero(k as u128); } }
    while i < ranges.len()
    //@    invariant
    //@        i <= ranges@.len(), t == total(ranges@, i as int), ranges_ok(ranges@, shift as int),
    //@        forall|k: int| 0 <= k < 128 ==> bit(acc, k) == get_model(raw, ranges@, shift as int, i as int, k),
    //@    decreases ranges@.len() - i
    {
        let (lo, n) = ranges[i];
        let mut j: usize = 0;
        //@ proof { lemma_total_mono(ranges@, i as int + 1, ranges@.len() as int); lemma_total_mono(ranges@, i as int, i as int + 1); }
        while j < n
        //@    invariant
        //@        j <= n, i < ranges@.len(), (lo, n) == ranges@[i as int], t == total(ranges@, i as int), t + n <= 128, lo + shift + n <= 128,
        //@        forall|k: int| 0 <= k < 128 ==> bit(acc, k) == (if t <= k < t + j { bit(raw, lo + shift + k - t) } else { get_model(raw, ranges@, shift as int, i as int, k) }),
        //@    decreases n - j
        {
            //@ let ghost old_acc = acc;
            if (raw >> (lo + shift + j)) & 1 == 1 {
                acc |= 1u128 << (t + j);
            }
            //@ proof {
            //@     assert forall|k: int| 0 <= k < 128 implies bit(acc, k) == (if t <= k < t + j + 1 { bit(raw, lo + shift + k - t) } else { get_model(raw, ranges@, shift as int, i as int, k) }) by {
            //@         lemma_orbit(old_acc, (t + j) as u128, k as u128);
            //@         lemma_get_high(raw, ranges@, shift as int, i as int, (t + j) as int);
            //@         let tst = (raw >> ((lo + shift + j) as u128)) & 1u128 == 1u128;
            //@         assert(tst == bit(raw, lo + shift + j));
            //@         assert(acc == if tst { old_acc | (1u128 << ((t + j) as u128)) } else { old_acc });
            //@         assert(!bit(old_acc, (t + j) as int));
            //@         if tst { assert(bit(acc, k) == (k == t + j || bit(old_acc, k))); } else { assert(bit(acc, k) == bit(old_acc, k)); }
            //@         if k == t + j { assert(lo + shift + k - t == lo + shift + j); }
            //@     }
            //@ }
            j += 1;
        }
        t += n;
        i += 1;
    }
    acc
}

/// `raw` with exactly the listed positions replaced by the corresponding bits of `v`; every other bit kept
pub const fn put_spec(raw: u128, ranges: &[(usize, usize)], shift: usize, v: u128) -> u128
//@ret r
//@    requires ranges_ok(ranges@, shift as int)
//@    ensures forall|k: int| 0 <= k < 128 ==> bit(r, k) == put_model(raw, ranges@, shift as int, v, ranges@.len() as int, k)
{
    let mut acc = raw;
    let mut t: usize = 0;
    let mut i: usize = 0;
    while i < ranges.len()
    //@    invariant
    //@        i <= ranges@.len(), t == total(ranges@, i as int), ranges_ok(ranges@, shift as int),
    //@        forall|k: int| 0 <= k < 128 ==> bit(acc, k) == put_model(raw, ranges@, shift as int, v, i as int, k),
    //@    decreases ranges@.len() - i
    {
        let (lo, n) = ranges[i];
        let mut j: usize = 0;
        //@ proof { lemma_total_mono(ranges@, i as int + 1, ranges@.len() as int); lemma_total_mono(ranges@, i as int, i as int + 1); }
        while j < n
        //@    invariant
        //@        j <= n, i < ranges@.len(), (lo, n) == ranges@[i as int], t == total(ranges@, i as int), t + n <= 128, lo + shift + n <= 128,
        //@        forall|k: int| 0 <= k < 128 ==> bit(acc, k) == (if lo + shift <= k < lo + shift + j { bit(v, t + k - lo - shift) } else { put_model(raw, ranges@, shift as int, v, i as int, k) }),
        //@    decreases n - j
        {
            let pos = lo + shift + j;
            //@ let ghost old_acc = acc;
            //@ let ghost vb = (v >> ((t + j) as u128)) & 1u128;
            //@ proof { assert(vb <= 1) by (bit_vector) requires vb == (v >> ((t + j) as u128)) & 1u128; }
            acc = (acc & !(1u128 << pos)) | (((v >> (t + j)) & 1) << pos);
            //@ proof {
            //@     assert forall|k: int| 0 <= k < 128 implies bit(acc, k) == (if lo + shift <= k < lo + shift + j + 1 { bit(v, t + k - lo - shift) } else { put_model(raw, ranges@, shift as int, v, i as int, k) }) by {
            //@         lemma_setbit(old_acc, pos as u128, vb, k as u128);
            //@         assert(acc == (old_acc & !(1u128 << (pos as u128))) | (vb << (pos as u128)));
            //@         assert(bit(acc, k) == (if k == pos { vb == 1u128 } else { bit(old_acc, k) }));
            //@         if k == pos { assert(t + k - lo - shift == t + j); assert(bit(v, t + k - lo - shift) == (vb == 1u128)); }
            //@     }
            //@ }
            j += 1;
        }
        t += n;
        i += 1;
    }
    acc
}

/// type invariant of an N-bit register held in a wider integer: no bit at or above n is set
pub const fn fits(raw: u128, n: usize) -> bool
//@ret r
//@    ensures r == (n >= 128 || raw >> (n as u128) == 0)
{
    n >= 128 || (raw >> n) == 0
}
