// dbgspec.rs -- independent formatter for the text C19 requires: `Name { a: <Debug a>, b: <Debug b> }`
// (and the {:#?} layout).  Used by the Kani proof (compared byte by byte with what the real `Debug::fmt` writes
// through the real core::fmt) and by the native exhaustive stand-in.  No allocation, no core::fmt.

pub const SINK: usize = 192;

pub struct Sink {
    pub buf: [u8; SINK],
    pub len: usize,
    pub overflow: bool,
}

impl Sink {
    pub fn new() -> Self {
        Sink { buf: [0; SINK], len: 0, overflow: false }
    }
    pub fn put(&mut self, s: &[u8]) {
        let mut i = 0;
        while i < s.len() {
            if self.len >= SINK {
                self.overflow = true;
                return;
            }
            self.buf[self.len] = s[i];
            self.len += 1;
            i += 1;
        }
    }
    pub fn pad(&mut self, n: usize) {
        let mut i = 0;
        while i < n {
            self.put(b" ");
            i += 1;
        }
    }
    pub fn put_dec(&mut self, v: u128) {
        let mut digits = [0u8; 40];
        let mut n = 0;
        let mut x = v;
        loop {
            digits[n] = b'0' + (x % 10) as u8;
            n += 1;
            x /= 10;
            if x == 0 {
                break;
            }
        }
        while n > 0 {
            n -= 1;
            let d = [digits[n]];
            self.put(&d);
        }
    }
    /// two's-complement reading of the low `bits` bits of v, printed in decimal
    pub fn put_signed(&mut self, v: u128, bits: usize) {
        let neg = (v >> (bits - 1)) & 1 == 1;
        if neg {
            self.put(b"-");
            let mag = if bits == 128 { (!v).wrapping_add(1) } else { (1u128 << bits) - v };
            self.put_dec(mag);
        } else {
            self.put_dec(v);
        }
    }
    /// `Ok(` / `Err(` wrapper around an inner value: compact `Ok(x)`, pretty `Ok(\n<ind+4>x,\n<ind>)`
    pub fn open_wrap(&mut self, name: &[u8], pretty: bool, ind: usize) {
        self.put(name);
        self.put(b"(");
        if pretty {
            self.put(b"\n");
            self.pad(ind + 4);
        }
    }
    pub fn close_wrap(&mut self, pretty: bool, ind: usize) {
        if pretty {
            self.put(b",\n");
            self.pad(ind);
        }
        self.put(b")");
    }
}

impl core::fmt::Write for Sink {
    fn write_str(&mut self, s: &str) -> core::fmt::Result {
        self.put(s.as_bytes());
        if self.overflow {
            Err(core::fmt::Error)
        } else {
            Ok(())
        }
    }
}
