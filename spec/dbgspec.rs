// dbgspec.rs -- independent formatter for the text C19 requires: `Name { a: <Debug a>, b: <Debug b> }`
// (and the {:#?} layout).  Used by the Kani proof (compared byte by byte with what the real `Debug::fmt` writes
// through the real core::fmt) and by the native exhaustive stand-in.  No allocation, no core::fmt.

pub const SINK: usize = 192;

pub struct Sink {
    pub buf: [u8; SINK],
    pub len: usize,
    pub overflow: bool,
}

impl Sink {
    pub fn new() -> Self {
        Sink { buf: [0; SINK], len: 0, overflow: false }
    }
    pub fn put(&mut self, s: &[u8]) {
        let mut i = 0;
        while i < s.len() {
            if self.len >= SINK {
                self.overflow = true;
                return;
            }
            self.buf[self.len] = s[i];
            self.len += 1;
            i += 1;
        }
    }
    pub fn pad(&mut self, n: usize) {
        let mut i = 0;
        while i < n {
            self.put(b" ");
            i += 1;
        }
    }
    pub fn put_dec(&mut self, v: u128) {
        let mut digits = [0u8; 40];
        let mut n = 0;
        let mut x = v;
        loop {
            digits[n] = b'0' + (x % 10) as u8;
            n += 1;
            x /= 10;
            if x == 0 {
                break;
            }
        }
        while n > 0 {
            n -= 1;
            let d = [digits[n]];
            self.put(&d);
        }
    }
    // narrow variants: the same text, computed in the narrowest native type (128-bit division is what makes CBMC slow)
    pub fn put_dec8(&mut self, v: u8) {
        if v >= 100 {
            let d = [b'0' + v / 100];
            self.put(&d);
        }
        if v >= 10 {
            let d = [b'0' + (v / 10) % 10];
            self.put(&d);
        }
        let d = [b'0' + v % 10];
        self.put(&d);
    }
    pub fn put_dec32(&mut self, v: u32) {
        let mut digits = [0u8; 10];
        let mut n = 0;
        let mut x = v;
        loop {
            digits[n] = b'0' + (x % 10) as u8;
            n += 1;
            x /= 10;
            if x == 0 {
                break;
            }
        }
        while n > 0 {
            n -= 1;
            let d = [digits[n]];
            self.put(&d);
        }
    }
    pub fn put_dec64(&mut self, v: u64) {
        let mut digits = [0u8; 20];
        let mut n = 0;
        let mut x = v;
        loop {
            digits[n] = b'0' + (x % 10) as u8;
            n += 1;
            x /= 10;
            if x == 0 {
                break;
            }
        }
        while n > 0 {
            n -= 1;
            let d = [digits[n]];
            self.put(&d);
        }
    }
    /// decimal text of the low `bits`-bit unsigned value
    pub fn put_unsigned(&mut self, v: u128, bits: usize) {
        if bits <= 8 {
            self.put_dec8(v as u8);
        } else if bits <= 32 {
            self.put_dec32(v as u32);
        } else if bits <= 64 {
            self.put_dec64(v as u64);
        } else {
            self.put_dec(v);
        }
    }
    /// two's-complement reading of the low `bits` bits of v, printed in decimal
    pub fn put_signed(&mut self, v: u128, bits: usize) {
        let neg = (v >> (bits - 1)) & 1 == 1;
        if neg {
            self.put(b"-");
            let mag = if bits == 128 { (!v).wrapping_add(1) } else { (1u128 << bits) - v };
            self.put_unsigned(mag, bits);
        } else {
            self.put_unsigned(v, bits);
        }
    }
    /// `Ok(` / `Err(` wrapper around an inner value: compact `Ok(x)`, pretty `Ok(\n<ind+4>x,\n<ind>)`
    pub fn open_wrap(&mut self, name: &[u8], pretty: bool, ind: usize) {
        self.put(name);
        self.put(b"(");
        if pretty {
            self.put(b"\n");
            self.pad(ind + 4);
        }
    }
    pub fn close_wrap(&mut self, pretty: bool, ind: usize) {
        if pretty {
            self.put(b",\n");
            self.pad(ind);
        }
        self.put(b")");
    }
}

impl core::fmt::Write for Sink {
    fn write_str(&mut self, s: &str) -> core::fmt::Result {
        self.put(s.as_bytes());
        if self.overflow {
            Err(core::fmt::Error)
        } else {
            Ok(())
        }
    }
}
